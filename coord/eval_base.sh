#!/bin/bash
# eval_base.sh <id> ... : evaluate kept seeded candidates against the frozen pre-round-6 snapshot of /verif
# (/var/tmp/verif-base, commit d7aaf96) so that builders editing /verif cannot disturb the result.
# Output: /var/tmp/evlogs/base-<id>.json (last line of evaluate.py)
B=/var/tmp/verif-base
run1() { id=$1; P=${id%%-*}; src=/verif/seeded/$id; [ -d $src ] || src=/tmp/w4out/$P/${id##*-};
  (cd $B && nice -n 5 python3 seeded/evaluate.py $P $src --skip-tests 2>&1 | tail -1 > /var/tmp/evlogs/base-$id.json); }
export -f run1; export B
printf '%s\n' "$@" | xargs -P 5 -I{} bash -c 'run1 {}'
