#!/bin/bash
cd /verif
run() { for p in "$@"; do (python3 seeded/recheck.py $p > /var/tmp/recheck/$p.log 2>&1; echo "$p done $(date +%H:%M)" >> /var/tmp/recheck/done.txt) & done; wait; }
run C01 C02 C03 C04
run C05 C06 C07 C09
run C10 C11 C12 C13
run C14 C16 C17 C18
run C19 C20
