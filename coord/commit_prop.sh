#!/bin/bash
# usage: commit_prop.sh C03 [C10 ...]
cd /verif
shopt -s nullglob
for P in "$@"; do
  L=$(echo $P | tr 'A-Z' 'a-z')
  for f in coq/Model/${P}_*.v coq/Proofs/${P}_*.v coq/Props/${P}.v coq/Extract/Ex${P}.v coq/Lib/${P}_*.v \
     gen/gen_t_${L}*.py harness/${L}.py harness/${L}_*.py manifest.d/${P}.json design.d/${P}.md \
     known_findings.d/${P}.json corpus/${P} fixes/${P}-* evidence/${P}.json; do
    git add "$f"
  done
done
for P in "$@"; do grep -qw $P manifest.d/ENABLED || sed -i "s/$/ $P/" manifest.d/ENABLED; done; git add manifest.d/ENABLED; python3 harness/mkmanifest.py; python3 harness/mkknown.py
git add MANIFEST.json known_findings.json harness/common.py evidence/C01.json
git commit -q -m "Checks built: $*" && git log --oneline | head -1
