#!/bin/bash
# run checks for the given properties (in parallel), commit those that exit 0
cd /verif
mkdir -p /var/tmp/rclogs
for p in "$@"; do (timeout 1800 ./check $p quick > /var/tmp/rclogs/$p.log 2>&1; echo $? > /var/tmp/rclogs/$p.rc) & done; wait
good=""
for p in "$@"; do rc=$(cat /var/tmp/rclogs/$p.rc); echo "$p rc=$rc $(grep -c '^VIOLATION' /var/tmp/rclogs/$p.log) viol $(grep -c '^KNOWN' /var/tmp/rclogs/$p.log) known | $(grep -E 'quick:' /var/tmp/rclogs/$p.log | cut -c1-120)"; if [ "$rc" = "0" ]; then good="$good $p"; fi; done
if [ -n "$good" ]; then /verif/coord/commit_prop.sh $good 2>&1 | grep -v pathspec | tail -2; fi
