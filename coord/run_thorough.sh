#!/bin/bash
cd /verif
run3() { for p in "$@"; do (timeout 3600 ./check $p thorough > /var/tmp/thorough/$p.log 2>&1; echo "$p rc=$? $(date +%H:%M)" >> /var/tmp/thorough/rc.txt) & done; wait; }
run3 C01 C02 C03 C04
run3 C05 C06 C07 C08
run3 C09 C10 C11 C12
run3 C13 C14 C15 C16
run3 C17 C18 C19 C20
