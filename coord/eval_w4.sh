#!/bin/bash
# eval_w4.sh Cxx ... : evaluate wave-4 candidates (dirs 1..3 renamed to 11..13), N in parallel
cd /verif
for P in "$@"; do
  for k in 1 2 3; do [ -d /tmp/w4out/$P/$k ] && mv /tmp/w4out/$P/$k /tmp/w4out/$P/1$k; done
  (python3 seeded/process.py $P /tmp/w4out/$P > /var/tmp/evlogs/w4-$P.log 2>&1) &
done; wait
