"""C16 table: the per-character relation that `re.IGNORECASE` induces between a
(regex-escaped) literal pattern character and a text character, over the
alphabet the C16 harness uses for its case-insensitive cases (all ASCII
letters plus a few cased non-ASCII letters with irregular folding).  It is the
concrete instance of the Section variable `ceq` of coq/Model/C16_Search.v that
the executable model `run_C16` is run with; the theorems hold for any `ceq`.
Fail-closed on the shape of the relation (reflexive on the alphabet, uncased
characters match only themselves).
-> coq/Gen/C16_CaseFold.v"""
import re
import sys

from gen_tables import emit, zlist

EXTRA = "éÉßẞſKıİσςΣµμǄǅǆ"
UNCASED = ".*\\\n 1(["


def alphabet():
    return [chr(c) for c in range(65, 91)] + [chr(c) for c in range(97, 123)] + list(EXTRA)


def die(msg):
    sys.stderr.write("gen_t_c16: " + msg + "\n")
    sys.exit(2)


def t_C16_CaseFold():
    al = alphabet()
    pairs = []
    for p in al:
        for t in al:
            m = re.fullmatch(re.escape(p), t, re.IGNORECASE) is not None
            if p == t and not m:
                die("re.IGNORECASE is not reflexive on %r" % p)
            if p != t and m:
                pairs.append((ord(p), ord(t)))
    # uncased characters of the harness alphabet must match only themselves
    for u in UNCASED:
        for t in al + list(UNCASED):
            if (re.fullmatch(re.escape(u), t, re.IGNORECASE) is not None) != (u == t):
                die("uncased %r matches %r under IGNORECASE" % (u, t))
        for p in al:
            if re.fullmatch(re.escape(p), u, re.IGNORECASE) is not None:
                die("cased %r matches uncased %r under IGNORECASE" % (p, u))
    if not (52 <= len(pairs) <= 200) or (97, 65) not in pairs or (65, 97) not in pairs:
        die("unexpected fold table size %d" % len(pairs))
    body = "(* pairs (pattern char, text char), distinct, that match under re.IGNORECASE *)\n"
    body += "Definition c16_fold_pairs : list (Z * Z) :=\n  [%s].\n\n" % "; ".join("(%d, %d)" % p for p in pairs)
    body += "Definition c16_fold_alphabet : list Z :=\n  %s.\n" % zlist(ord(c) for c in al)
    return emit("C16_CaseFold", body)


TABLES = {"C16_CaseFold": t_C16_CaseFold}
