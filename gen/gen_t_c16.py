"""C16 table: the per-character relation that `re.IGNORECASE` induces between a
(regex-escaped) literal pattern character and a text character, over the
alphabet the C16 harness uses for its case-insensitive cases (all ASCII
letters plus a few cased non-ASCII letters with irregular folding).  It is the
concrete instance of the Section variable `ceq` of coq/Model/C16_Search.v that
the executable model `run_C16` is run with; the theorems hold for any `ceq`.
Fail-closed on the shape of the relation (reflexive on the alphabet, uncased
characters match only themselves).
-> coq/Gen/C16_CaseFold.v"""
import re
import sys

from gen_tables import emit, zlist

EXTRA = "éÉßẞſKıİσςΣµμǄǅǆ"
UNCASED = ".*\\\n 1(["


def alphabet():
    return [chr(c) for c in range(65, 91)] + [chr(c) for c in range(97, 123)] + list(EXTRA)


def die(msg):
    sys.stderr.write("gen_t_c16: " + msg + "\n")
    sys.exit(2)


def t_C16_CaseFold():
    al = alphabet()
    pairs = []
    for p in al:
        for t in al:
            m = re.fullmatch(re.escape(p), t, re.IGNORECASE) is not None
            if p == t and not m:
                die("re.IGNORECASE is not reflexive on %r" % p)
            if p != t and m:
                pairs.append((ord(p), ord(t)))
    # uncased characters of the harness alphabet must match only themselves
    for u in UNCASED:
        for t in al + list(UNCASED):
            if (re.fullmatch(re.escape(u), t, re.IGNORECASE) is not None) != (u == t):
                die("uncased %r matches %r under IGNORECASE" % (u, t))
        for p in al:
            if re.fullmatch(re.escape(p), u, re.IGNORECASE) is not None:
                die("cased %r matches uncased %r under IGNORECASE" % (p, u))
    if not (52 <= len(pairs) <= 200) or (97, 65) not in pairs or (65, 97) not in pairs:
        die("unexpected fold table size %d" % len(pairs))
    body = "(* pairs (pattern char, text char), distinct, that match under re.IGNORECASE *)\n"
    body += "Definition c16_fold_pairs : list (Z * Z) :=\n  [%s].\n\n" % "; ".join("(%d, %d)" % p for p in pairs)
    body += "Definition c16_fold_alphabet : list Z :=\n  %s.\n" % zlist(ord(c) for c in al)
    return emit("C16_CaseFold", body)


# ---------------------------------------------------------------------------
# C16_Sre: the data CPython's `re` uses for `re.escape`, for parsing an escaped
# pattern back into literals and for compiling a literal under IGNORECASE:
#   re._special_chars_map (re.escape), re._parser.{SPECIAL_CHARS, ESCAPES,
#   CATEGORIES, ASCIILETTERS, DIGITS} (sre parser), _sre.unicode_tolower,
#   _sre.unicode_iscased, re._casefix._EXTRA_CASES (sre compiler / matcher).
# coq/Model/C16_Regex.v defines escape / parse / compile / one-character match
# over them.  Fail-closed: the relation these tables define is compared here
# with what `re` itself does (every cased pattern character against every
# character that any table mentions; harness/c16.py repeats the comparison
# against ALL of Unicode in the thorough tier).

def sre_tables():
    import _sre
    from re import _casefix, _parser
    try:
        special = sorted(re._special_chars_map)
        for k in special:
            if re._special_chars_map[k] != "\\" + chr(k):
                die("re._special_chars_map[%d] is %r" % (k, re._special_chars_map[k]))
        sre_special = sorted(ord(c) for c in _parser.SPECIAL_CHARS)
        escapes = []
        for k, v in sorted(_parser.ESCAPES.items()):
            if len(k) != 2 or k[0] != "\\" or str(v[0]) != "LITERAL":
                die("unexpected ESCAPES entry %r: %r" % (k, v))
            escapes.append((ord(k[1]), int(v[1])))
        cats = []
        for k in sorted(_parser.CATEGORIES):
            if len(k) != 2 or k[0] != "\\":
                die("unexpected CATEGORIES key %r" % (k,))
            cats.append(ord(k[1]))
        letters = sorted(ord(c) for c in _parser.ASCIILETTERS)
        digits = sorted(ord(c) for c in _parser.DIGITS)
        lower = [(c, _sre.unicode_tolower(c)) for c in range(0x110000) if _sre.unicode_tolower(c) != c]
        cased = [c for c in range(0x110000) if _sre.unicode_iscased(c)]
        extra = sorted((int(k), [int(x) for x in v]) for k, v in _casefix._EXTRA_CASES.items())
    except (AttributeError, KeyError, TypeError, ValueError) as e:
        die("CPython's re internals have an unexpected shape: %r" % (e,))
    if not (1000 < len(lower) < 3000 and 2000 < len(cased) < 6000 and 10 < len(extra) < 200):
        die("unexpected table sizes %d %d %d" % (len(lower), len(cased), len(extra)))
    return dict(special=special, sre_special=sre_special, escapes=escapes, cats=cats, letters=letters,
                digits=digits, lower=lower, cased=cased, extra=extra)


def sre_rel(T):
    """The one-character relation the tables define (mirror of ceq_sre in Model/C16_Regex.v)."""
    lower, cased, extra = dict(T["lower"]), set(T["cased"]), dict(T["extra"])

    def rel(p, t):
        if p not in cased:
            return p == t
        lo = lower.get(p, p)
        lt = lower.get(t, t)
        return lt == lo or lt in extra.get(lo, ())
    return rel


def sre_mentioned(T):
    s = set(T["cased"])
    for a, b in T["lower"]:
        s.add(a)
        s.add(b)
    for k, v in T["extra"]:
        s.add(k)
        s.update(v)
    return s


def check_sre_rel(T, patterns, texts):
    """-> first (p, t) on which `re` and the table relation differ, or None.
    The row {t : rel(p, t)} is computed through an index of the texts by their
    lower-case image (rel(p, t) <=> lower(t) in {lower(p)} + extra[lower(p)])."""
    lower, cased, extra = dict(T["lower"]), set(T["cased"]), dict(T["extra"])
    texts = sorted(texts)
    tset = set(texts)
    hay = "".join(chr(c) for c in texts)
    inv = {}
    for t in texts:
        inv.setdefault(lower.get(t, t), []).append(t)
    for p in patterns:
        got = set(ord(x) for x in re.compile(re.escape(chr(p)), re.IGNORECASE).findall(hay))
        if p not in cased:
            want = {p} & tset
        else:
            lo = lower.get(p, p)
            want = set(inv.get(lo, ()))
            for f in extra.get(lo, ()):
                want.update(inv.get(f, ()))
        if got != want:
            return (p, min(got ^ want))
    return None


def t_C16_Sre():
    T = sre_tables()
    ment = sre_mentioned(T) | set(range(0x250)) | set(ord(c) for c in UNCASED)
    bad = check_sre_rel(T, T["cased"] + [ord(c) for c in UNCASED] + list(range(0x80)), ment)
    if bad:
        die("re.IGNORECASE and the relation defined by _sre.unicode_tolower/unicode_iscased/_EXTRA_CASES differ on pattern %r text %r" % (chr(bad[0]), chr(bad[1])))
    body = "(* keys of re._special_chars_map: the characters re.escape puts a backslash before *)\n"
    body += "Definition c16_re_special : list Z :=\n  %s.\n\n" % zlist(T["special"])
    body += "(* re._parser.SPECIAL_CHARS *)\nDefinition c16_sre_special : list Z :=\n  %s.\n\n" % zlist(T["sre_special"])
    body += "(* re._parser.ESCAPES: character after the backslash -> LITERAL value *)\n"
    body += "Definition c16_sre_escapes : list (Z * Z) :=\n  [%s].\n\n" % "; ".join("(%d, %d)" % e for e in T["escapes"])
    body += "(* re._parser.CATEGORIES: characters after the backslash *)\nDefinition c16_sre_categories : list Z :=\n  %s.\n\n" % zlist(T["cats"])
    body += "Definition c16_sre_asciiletters : list Z :=\n  %s.\n\n" % zlist(T["letters"])
    body += "Definition c16_sre_digits : list Z :=\n  %s.\n\n" % zlist(T["digits"])
    body += "(* _sre.unicode_tolower where it is not the identity *)\n"
    body += "Definition c16_sre_lower : list (Z * Z) :=\n  [%s].\n\n" % "; ".join("(%d, %d)" % e for e in T["lower"])
    body += "(* _sre.unicode_iscased *)\nDefinition c16_sre_cased : list Z :=\n  %s.\n\n" % zlist(T["cased"])
    body += "(* re._casefix._EXTRA_CASES *)\n"
    body += "Definition c16_sre_extra : list (Z * list Z) :=\n  [%s].\n" % "; ".join("(%d, %s)" % (k, zlist(v)) for k, v in T["extra"])
    return emit("C16_Sre", body)


TABLES = {"C16_CaseFold": t_C16_CaseFold, "C16_Sre": t_C16_Sre}
