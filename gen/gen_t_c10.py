"""C10 tables and structural side conditions.

1. `Char.display_mappings` (layout/screen.py) -> coq/Gen/C10_DisplayMappings.v
   (fail closed on non-str / multi-character keys).
2. AST scan of <repo>/src/prompt_toolkit (fail closed: the table file then says
   `store_sites_reviewed := false` and Lemma store_sites_reviewed_checked, hence
   Props/C10.v, no longer compiles - while the model still builds, so that the
   correspondence run can look for a failing input):
   a. every store into a screen cell (`data_buffer[..][..] = X`, through row /
      buffer aliases) under layout/ has X = `Char(a, ..)`, `_CHAR_CACHE[a, ..]`
      (or an alias of it), a local name only ever bound to such expressions, or
      a cell read from another screen row; and the text argument `a` is one of
      the reviewed expressions in SAFE_CHAR_ARGS;
   b. every store into `zero_width_escapes` is the `+= text` under
      `if "[ZeroWidthEscape]" in style:` or a copy of another screen's entry;
   c. every `write_raw(..)` call outside output/ is one of the three reviewed
      call sites (renderer zero-width escapes, print_formatted_text's
      ZeroWidthEscape branch, patch_stdout raw mode);
   d. every `<..>output.write(arg)` call outside output/ has a string literal,
      `_dumb_terminal_text(..)` (which must map through Char.display_mappings),
      or is one of the two safe-print sites;
   e. every in-package caller of Application.print_text / print_formatted_text is
      listed in PRINT_CALL_SITES with what it prints; the one that prints displayed
      content (the READLINE_LIKE completion listing) is recorded as mapped / not
      mapped (`readline_listing_mapped` in the Gen file).
   `scan(repo)` returns the list of problems (empty = side condition holds) and
   the inventory of classified sites; harness/c10.py calls it as well to report
   a specific violation."""
import ast
import glob
import os
import sys

from gen_tables import emit, zlist, zstr, REPO

# The text argument `a` of every Char(a, ..)/_CHAR_CACHE[a, ..] that is stored
# into a screen cell is classified by dataflow inside its function:
#   literal   a string constant without control characters
#   char      a loop variable of `for a in T` where T is the text element of a
#             fragment tuple unpacked by `for S, T, *_ in L`: ONE element of an
#             iterated string                         -> Theorem C10_cell_clean
#   merge     `P.char + c` with P a cell read from a screen row and c of class
#             `char`, stored under `elif char_width == 0` where
#             `char_width = char.width`, `char = _CHAR_CACHE[c, style]`
#                                                     -> Theorem C10_merge_clean
#   restyle   `X.char` with X a cell read from a screen row (or a loop variable
#             over row.items())                       -> Theorem C10_rewrap_stable
#   reviewed  anything else must be listed here, with the reason it is not
#             displayed content:
REVIEWED_BY_HAND = {
    "char or ' '": "Window.char: application supplied fill character",
    "digraph_char": "Window._get_digraph_char: '^', '?' or the data of ONE key press in Vi digraph mode (key data, see key_sequences facts)",
    "data": "Window._show_key_processor_key_buffer: data of a pending key, only if get_cwidth(data) == 1 (see key_sequences facts)",
    "self.up_arrow_symbol": "ScrollablePane arrow symbol: application supplied",
    "self.down_arrow_symbol": "ScrollablePane arrow symbol: application supplied",
}

# dictionaries written by subscript in the same functions that are not screens
NON_SCREEN_SUBSCRIPT_BASES = {
    "visible_line_to_row_col", "current_rowcol_to_yx", "rowcol_to_yx", "mouse_handlers_row",
    "self.cursor_positions", "self.menu_positions", "screen.visible_windows_to_write_positions",
    "self.visible_windows_to_write_positions", "mouse_handlers.mouse_handlers", "mouse_handler_wrappers",
    "self", "row_mouse_handlers", "mouse_row", "new_mouse_handlers_row", "temp_mouse_row",
}
ROW_READ_METHODS = {"items", "keys", "values", "get"}
ZWE_TEST = "'[ZeroWidthEscape]' in style"
WRITE_RAW_SITES = {
    ("renderer.py", "write_raw(zero_width_escapes_row[c])", None),
    ("renderer.py", "output.write_raw(text)", "'[ZeroWidthEscape]' in style_str"),
    ("patch_stdout.py", "self._output.write_raw(text)", "self.raw"),
}


# `<..>output.write(arg)` call sites outside output/ and outside the renderer's
# screen path: the argument must be a string literal, go through
# shortcuts.prompt._dumb_terminal_text (display_mappings applied; dumb terminal),
# or be one of the two reviewed safe-print sites (only "no ESC" is claimed there).
SAFE_PRINT_WRITE_SITES = {
    ("renderer.py", "output.write(text)"),           # print_formatted_text
    ("patch_stdout.py", "self._output.write(text)"),  # StdoutProxy
}


# In-package callers of the print path (Application.print_text /
# renderer.print_formatted_text -> Vt100_Output.write, which only replaces ESC).
# (relative path, enclosing function) -> what is printed.  A caller that prints
# DISPLAYED CONTENT must map it first ("mapped": must go through
# _show_control_characters); any caller not listed fails the scan.
PRINT_CALL_SITES = {
    ("shortcuts/utils.py", "render"): "shortcuts.print_formatted_text (public API: values the application prints (safe print path: only the no-ESC clause)",
    ("application/application.py", "print_text"): "Application.print_text itself",
    ("application/application.py", "run_command"): "run_system_command(display_before_text=..): application supplied",
    ("contrib/telnet/server.py", "send"): "TelnetConnection.send: application supplied text",
    ("key_binding/bindings/completion.py", "display"): "mapped",   # completion display text: displayed content
}
PRINT_FUNCS = {"print_text", "print_formatted_text", "renderer_print_formatted_text"}


def die(msg):
    sys.stderr.write("gen_t_c10: " + msg + "\n")
    sys.exit(2)


def _u(n):
    return ast.unparse(n)


class _Scope:
    """One top-level function or method, nested functions included."""

    def __init__(self, path, fn):
        self.path, self.fn = path, fn
        self.buffers, self.rows, self.caches, self.zrows = set(), set(), {"_CHAR_CACHE"}, set()
        self.assigns = {}      # name -> [value expr]
        self.problems, self.sites, self.classes, self.item_cells = [], [], [], set()
        self.class_rows = []

    def is_buffer(self, e):
        return (isinstance(e, ast.Attribute) and e.attr == "data_buffer") or \
               (isinstance(e, ast.Name) and e.id in self.buffers)

    def is_row(self, e):
        return (isinstance(e, ast.Name) and e.id in self.rows) or \
               (isinstance(e, ast.Subscript) and self.is_buffer(e.value))

    def is_zwe_map(self, e):
        return isinstance(e, ast.Attribute) and e.attr == "zero_width_escapes"

    def is_zwe_row(self, e):
        return (isinstance(e, ast.Name) and e.id in self.zrows) or \
               (isinstance(e, ast.Subscript) and self.is_zwe_map(e.value))

    def collect(self):
        changed = True
        while changed:
            changed = False
            for n in ast.walk(self.fn):
                pairs = []
                if isinstance(n, ast.Assign):
                    for t in n.targets:
                        pairs.append((t, n.value))
                elif isinstance(n, ast.AnnAssign) and n.value is not None:
                    pairs.append((n.target, n.value))
                elif isinstance(n, ast.For):
                    it = n.iter
                    if isinstance(it, ast.Call) and isinstance(it.func, ast.Attribute) and it.func.attr == "items" \
                            and isinstance(n.target, ast.Tuple) and len(n.target.elts) == 2 \
                            and isinstance(n.target.elts[1], ast.Name):
                        nm = n.target.elts[1].id
                        if self.is_buffer(it.func.value) and nm not in self.rows:
                            self.rows.add(nm)
                            changed = True
                        if self.is_row(it.func.value) and nm not in self.item_cells:
                            self.item_cells.add(nm)
                            changed = True
                for t, v in pairs:
                    if not isinstance(t, ast.Name):
                        continue
                    for pred, st in ((self.is_buffer, self.buffers), (self.is_row, self.rows),
                                     (self.is_zwe_row, self.zrows)):
                        if pred(v) and t.id not in st:
                            st.add(t.id)
                            changed = True
                    if isinstance(v, ast.Name) and v.id in self.caches and t.id not in self.caches:
                        self.caches.add(t.id)
                        changed = True
        for n in ast.walk(self.fn):
            if isinstance(n, ast.Assign):
                for t in n.targets:
                    if isinstance(t, ast.Name):
                        self.assigns.setdefault(t.id, []).append(n.value)
            elif isinstance(n, (ast.AnnAssign, ast.AugAssign)) and isinstance(n.target, ast.Name):
                self.assigns.setdefault(n.target.id, []).append(n.value)
            elif isinstance(n, (ast.For, ast.comprehension)):
                for t in ast.walk(n.target):
                    if isinstance(t, ast.Name):
                        self.assigns.setdefault(t.id, []).append(None)   # loop variable: not a cell expression

    def _bindings(self, name):
        return self.assigns.get(name) or []

    def _is_cell_name(self, name):
        """name is only ever bound to a cell read from a screen row (or to the value of row.items())"""
        vals = self._bindings(name)
        if not vals:
            return False
        for v in vals:
            if v is None:
                if name not in self.item_cells:
                    return False
            elif not (isinstance(v, ast.Subscript) and self.is_row(v.value)):
                return False
        return True

    def _is_text_char(self, name):
        """`for name in T` with T unpacked as the text of a fragment: `for S, T, *_ in L`"""
        ok = False
        for n in ast.walk(self.fn):
            if isinstance(n, ast.For) and isinstance(n.target, ast.Name) and n.target.id == name:
                if not isinstance(n.iter, ast.Name):
                    return False
                t = n.iter.id
                src = [m for m in ast.walk(self.fn) if isinstance(m, ast.For) and isinstance(m.target, ast.Tuple)
                       and len(m.target.elts) >= 2 and isinstance(m.target.elts[1], ast.Name) and m.target.elts[1].id == t]
                if not src or len(self._bindings(t)) != len(src):
                    return False       # the text name is also bound elsewhere
                ok = True
        # the loop variable must not be rebound by an assignment
        return ok and all(v is None for v in self._bindings(name))

    def classify_text(self, a, store):
        """-> (class, None) or (None, reason)"""
        if isinstance(a, ast.Constant) and isinstance(a.value, str):
            if any(ord(c) < 32 or ord(c) == 127 or 128 <= ord(c) < 160 for c in a.value):
                return None, "string literal %r contains a control character" % a.value
            return "literal", None
        if isinstance(a, ast.Name) and self._is_text_char(a.id):
            return "char", None
        if isinstance(a, ast.Attribute) and a.attr == "char" and isinstance(a.value, ast.Name) and self._is_cell_name(a.value.id):
            return "restyle", None
        if isinstance(a, ast.BinOp) and isinstance(a.op, ast.Add) and isinstance(a.left, ast.Attribute) and a.left.attr == "char" \
                and isinstance(a.left.value, ast.Name) and self._is_cell_name(a.left.value.id) \
                and isinstance(a.right, ast.Name) and self._is_text_char(a.right.id):
            c = a.right.id
            tests = self.enclosing_tests_any(a)
            cw = [_u(v) for v in self._bindings("char_width") if v is not None]
            ch = [_u(v) for v in self._bindings("char") if v is not None]
            if "char_width == 0" in tests and cw == ["char.width"] and ch == ["_CHAR_CACHE[%s, style]" % c]:
                return "merge", None
            return None, "zero-width merge `%s` is not under `char_width == 0` with char_width = char.width, char = _CHAR_CACHE[%s, style] (tests %r, char_width %r, char %r)" % (_u(a), c, tests, cw, ch)
        if _u(a) in REVIEWED_BY_HAND:
            return "reviewed", None
        return None, "text argument `%s` is neither a clean literal, one element of an iterated fragment text, a guarded zero-width merge, the text of an existing cell, nor listed in REVIEWED_BY_HAND" % _u(a)

    def enclosing_tests_any(self, node):
        """tests of the if/elif branches (bodies and else-chains) that contain `node`"""
        out = []

        def go(n, tests):
            if n is node:
                out.extend(tests)
                return True
            if isinstance(n, ast.If):
                for ch in n.body:
                    if go(ch, tests + [_u(n.test)]):
                        return True
                for ch in n.orelse:
                    if go(ch, tests):
                        return True
                if go(n.test, tests):
                    return True
                return False
            for ch in ast.iter_child_nodes(n):
                if go(ch, tests):
                    return True
            return False
        go(self.fn, [])
        return out

    def _text_ok(self, a):
        cls, why = self.classify_text(a, None)
        if cls:
            self.classes.append((cls, _u(a)))
            # (class, text): the VALUE of a literal (its control-freeness is re-proved in Coq), else the source expression
            self.class_rows.append((cls, a.value if cls == "literal" else _u(a)))
            return None
        return why

    def cell_value(self, v, depth=0):
        """None when v is an accepted cell expression, else a reason."""
        if v is None:
            return "bound by a loop"
        if isinstance(v, ast.Call) and isinstance(v.func, ast.Name) and v.func.id == "Char":
            if v.args:
                a = v.args[0]
            else:
                kw = [k.value for k in v.keywords if k.arg == "char"]
                a = kw[0] if kw else ast.Constant(" ")
            return self._text_ok(a)
        if isinstance(v, ast.Subscript) and isinstance(v.value, ast.Name) and v.value.id in self.caches:
            sl = v.slice
            if isinstance(sl, ast.Tuple) and len(sl.elts) == 2:
                return self._text_ok(sl.elts[0])
            return "unexpected _CHAR_CACHE key `%s`" % _u(sl)
        if isinstance(v, ast.Subscript) and self.is_row(v.value):
            return None     # a cell read from a screen row
        if isinstance(v, ast.Name) and depth < 4:
            vals = self.assigns.get(v.id)
            if not vals:
                return "name `%s` has no local binding" % v.id
            for w in vals:
                r = self.cell_value(w, depth + 1)
                if r:
                    return "name `%s`: %s" % (v.id, r)
            return None
        return "value `%s` is not Char(..)/_CHAR_CACHE[..]" % _u(v)

    def enclosing_tests(self, target):
        out = []

        def go(n, tests):
            if n is target:
                out.extend(tests)
                return True
            if isinstance(n, ast.If):
                for ch in n.body:
                    if go(ch, tests + [_u(n.test)]):
                        return True
                for ch in n.orelse:
                    if go(ch, tests):
                        return True
                return False
            for ch in ast.iter_child_nodes(n):
                if go(ch, tests):
                    return True
            return False
        go(self.fn, [])
        return out

    def check(self):
        where = "%s:%s" % (os.path.basename(self.path), self.fn.name)
        for n in ast.walk(self.fn):
            stores = []
            if isinstance(n, ast.Assign):
                stores = [(t, n.value, "=") for t in n.targets]
            elif isinstance(n, ast.AugAssign):
                stores = [(n.target, n.value, "+=")]
            elif isinstance(n, ast.AnnAssign) and n.value is not None:
                stores = [(n.target, n.value, "=")]
            for t, v, op in stores:
                if isinstance(t, ast.Attribute) and t.attr in ("data_buffer", "zero_width_escapes"):
                    if not (os.path.basename(self.path) == "screen.py" and self.fn.name == "__init__"):
                        self.problems.append("%s line %d: `%s` is rebound" % (where, n.lineno, _u(t)))
                    continue
                if not isinstance(t, ast.Subscript):
                    continue
                base = t.value
                if self.is_row(base):
                    if op != "=":
                        self.problems.append("%s line %d: augmented store into a screen cell `%s`" % (where, n.lineno, _u(n)))
                        continue
                    r = self.cell_value(v)
                    self.sites.append((where, n.lineno, _u(n).replace("\n", " ")[:100]))
                    if r:
                        self.problems.append("%s line %d: screen cell store `%s`: %s" % (where, n.lineno, _u(n).replace("\n", " ")[:120], r))
                elif self.is_buffer(base):
                    self.problems.append("%s line %d: a whole screen row is stored `%s`" % (where, n.lineno, _u(n)[:120]))
                elif self.is_zwe_row(base):
                    self.sites.append((where, n.lineno, _u(n)[:100]))
                    if op == "+=":
                        tests = self.enclosing_tests(n)
                        if ZWE_TEST not in tests or _u(v) != "text":
                            self.problems.append("%s line %d: zero-width-escape append `%s` not under `if %s` (enclosing tests %r)"
                                                 % (where, n.lineno, _u(n), ZWE_TEST, tests))
                    elif not (isinstance(v, ast.Subscript) and self.is_zwe_row(v.value)):
                        self.problems.append("%s line %d: zero-width-escape store `%s` is not a copy of another screen's entry" % (where, n.lineno, _u(n)))
                elif self.is_zwe_map(base):
                    self.problems.append("%s line %d: a whole zero_width_escapes row is stored `%s`" % (where, n.lineno, _u(n)[:120]))
                else:
                    b = base
                    while isinstance(b, ast.Subscript):
                        b = b.value
                    if _u(b) not in NON_SCREEN_SUBSCRIPT_BASES:
                        self.problems.append("%s line %d: unclassified subscript store `%s` in a function that touches the screen "
                                             "(add the base to NON_SCREEN_SUBSCRIPT_BASES after review)" % (where, n.lineno, _u(n)[:120]))
            if isinstance(n, ast.Call) and isinstance(n.func, ast.Attribute) and \
                    (self.is_row(n.func.value) or self.is_buffer(n.func.value) or self.is_zwe_row(n.func.value) or self.is_zwe_map(n.func.value)):
                if n.func.attr not in ROW_READ_METHODS:
                    self.problems.append("%s line %d: mutating method call on a screen row `%s`" % (where, n.lineno, _u(n)[:120]))
            if isinstance(n, ast.Call):
                for a in list(n.args) + [k.value for k in n.keywords]:
                    if self.is_buffer(a) or self.is_row(a) or self.is_zwe_map(a) or self.is_zwe_row(a):
                        self.problems.append("%s line %d: a screen row/buffer escapes into a call `%s`" % (where, n.lineno, _u(n)[:120]))
            if isinstance(n, ast.Delete):
                for t in n.targets:
                    if isinstance(t, ast.Subscript) and (self.is_row(t.value) or self.is_buffer(t.value)):
                        pass   # deleting a cell restores the default character


def _top_functions(tree):
    for n in tree.body:
        if isinstance(n, (ast.FunctionDef, ast.AsyncFunctionDef)):
            yield n
        elif isinstance(n, ast.ClassDef):
            for m in n.body:
                if isinstance(m, (ast.FunctionDef, ast.AsyncFunctionDef)):
                    yield m


def scan(repo=None):
    """-> (problems, sites)."""
    repo = (repo or REPO).rstrip("/")
    root = repo + "/src/prompt_toolkit"
    problems, sites = [], []
    scan.classes = []
    scan.class_rows = []
    files = sorted(glob.glob(root + "/layout/*.py"))
    if len(files) < 10:
        return ["layout/*.py not found under %s" % root], []
    for p in files:
        src = open(p, encoding="utf-8").read()
        tree = ast.parse(src)
        for fn in _top_functions(tree):
            text = ast.get_source_segment(src, fn) or ""
            if "data_buffer" not in text and "zero_width_escapes" not in text:
                continue
            sc = _Scope(p, fn)
            sc.collect()
            sc.check()
            problems += sc.problems
            sites += sc.sites
            scan.classes += sc.classes
            scan.class_rows += sc.class_rows
        # module level code must not touch screens
        for n in tree.body:
            if not isinstance(n, (ast.FunctionDef, ast.AsyncFunctionDef, ast.ClassDef)):
                seg = ast.get_source_segment(src, n) or ""
                if "data_buffer" in seg or "zero_width_escapes" in seg:
                    problems.append("%s line %d: module-level code mentions a screen buffer" % (os.path.basename(p), n.lineno))
    ncell = sum(1 for s in sites if "zero_width" not in s[2] and not s[0].endswith(":write") and not s[0].endswith(":print"))
    if ncell < 8:
        problems.append("only %d screen cell stores recognised (expected >= 8): the scan no longer understands the code" % ncell)
    # write_raw call sites outside output/
    found = set()
    for p in sorted(glob.glob(root + "/**/*.py", recursive=True)):
        rel = os.path.relpath(p, root)
        if rel.startswith("output" + os.sep):
            continue
        src = open(p, encoding="utf-8").read()
        if "write_raw" not in src:
            continue
        tree = ast.parse(src)
        parents = {}
        for n in ast.walk(tree):
            for ch in ast.iter_child_nodes(n):
                parents[ch] = n
        for n in ast.walk(tree):
            if isinstance(n, ast.Call) and ((isinstance(n.func, ast.Attribute) and n.func.attr == "write_raw") or
                                            (isinstance(n.func, ast.Name) and n.func.id == "write_raw")):
                # innermost enclosing `if` in whose body the call sits
                test = None
                q = n
                while q in parents:
                    par = parents[q]
                    if isinstance(par, ast.If) and any(q is b or q in ast.walk(b) for b in par.body):
                        test = _u(par.test)
                        break
                    q = par
                key = (os.path.basename(p), _u(n), test)
                ok = any(key[0] == s[0] and key[1] == s[1] and (s[2] is None or s[2] == test) for s in WRITE_RAW_SITES)
                if ok:
                    found.add((key[0], key[1]))
                else:
                    problems.append("%s line %d: unreviewed raw write `%s` (enclosing test %r)" % (rel, n.lineno, _u(n), test))
    # output.write(..) call sites outside output/
    for p in sorted(glob.glob(root + "/**/*.py", recursive=True)):
        rel = os.path.relpath(p, root)
        if rel.startswith("output" + os.sep):
            continue
        src = open(p, encoding="utf-8").read()
        if ".write(" not in src:
            continue
        for n in ast.walk(ast.parse(src)):
            if not (isinstance(n, ast.Call) and isinstance(n.func, ast.Attribute) and n.func.attr == "write"):
                continue
            recv = _u(n.func.value)
            if not (recv == "output" or recv.endswith(".output") or recv.endswith("._output")):
                continue
            a = n.args[0] if len(n.args) == 1 and not n.keywords else None
            ok = a is not None and (
                (isinstance(a, ast.Constant) and isinstance(a.value, str)) or
                (isinstance(a, ast.Call) and isinstance(a.func, ast.Name) and a.func.id == "_dumb_terminal_text") or
                (os.path.basename(p), _u(n)) in SAFE_PRINT_WRITE_SITES)
            sites.append(("%s:write" % os.path.basename(p), n.lineno, _u(n).replace("\n", " ")[:100]))
            if not ok:
                problems.append("%s line %d: unreviewed text write `%s` (not a literal, not through _dumb_terminal_text)"
                                % (rel, n.lineno, _u(n).replace("\n", " ")[:120]))
    # callers of the print path
    scan.readline_mapped = None
    for p in sorted(glob.glob(root + "/**/*.py", recursive=True)):
        rel = os.path.relpath(p, root)
        src = open(p, encoding="utf-8").read()
        if "print_text" not in src and "print_formatted_text" not in src:
            continue
        tree = ast.parse(src)
        funcs = [n for n in ast.walk(tree) if isinstance(n, (ast.FunctionDef, ast.AsyncFunctionDef))]
        for n in ast.walk(tree):
            if not isinstance(n, ast.Call):
                continue
            name = n.func.attr if isinstance(n.func, ast.Attribute) else n.func.id if isinstance(n.func, ast.Name) else None
            if name not in PRINT_FUNCS:
                continue
            encl = [f for f in funcs if f is not n and any(m is n for m in ast.walk(f))]
            encl.sort(key=lambda f: f.lineno)
            fn = encl[-1].name if encl else "<module>"
            what = PRINT_CALL_SITES.get((rel, fn))
            sites.append(("%s:print" % rel, n.lineno, "%s in %s" % (_u(n).replace("\n", " ")[:80], fn)))
            if what is None:
                problems.append("%s line %d: unreviewed caller of the print path `%s` in %s (add to PRINT_CALL_SITES after review: "
                                "displayed content must be mapped through Char.display_mappings first)" % (rel, n.lineno, _u(n)[:100], fn))
            elif what == "mapped":
                body = _u(encl[-1])
                scan.readline_mapped = "_show_control_characters(" in body
    if scan.readline_mapped is None:
        problems.append("key_binding/bindings/completion.py: the readline-like listing's print_text call was not found")
    # _dumb_terminal_text must map through Char.display_mappings
    try:
        src = open(root + "/shortcuts/prompt.py", encoding="utf-8").read()
        fn = [n for n in ast.parse(src).body if isinstance(n, ast.FunctionDef) and n.name == "_dumb_terminal_text"]
        if len(fn) != 1 or "Char.display_mappings.get(c, c)" not in _u(fn[0]):
            problems.append("shortcuts/prompt.py: _dumb_terminal_text is missing or no longer maps through Char.display_mappings.get(c, c)")
    except OSError:
        problems.append("shortcuts/prompt.py not found")
    return problems, sites


CLASS_CODE = {"literal": 0, "char": 1, "merge": 2, "restyle": 3, "reviewed": 4}

# output/vt100.py Vt100_Output: everything that reaches the buffer.  kinds of a write_raw argument:
#   0 string literal   1 "<literal with %i>" % ints   2 escape_code_cache[attrs] (SGR, C19)
#   4 set_title's format of the title with ESC and BEL removed (application data)
VT_WRITE_BODY = "self._buffer.append(data.replace('\\x1b', '?'))"
VT_WRITE_RAW_BODY = "self._buffer.append(data)"
VT_TITLE_ARG = "'\\x1b]2;{}\\x07'.format(title.replace('\\x1b', '').replace('\\x07', ''))"
VT_BUFFER_METHODS = {"__init__", "write_raw", "write", "flush"}


def scan_vt100(repo=None):
    """-> (problems, rows); rows = (method, kind, text)"""
    repo = (repo or REPO).rstrip("/")
    path = repo + "/src/prompt_toolkit/output/vt100.py"
    problems, rows = [], []
    try:
        tree = ast.parse(open(path, encoding="utf-8").read())
    except OSError:
        return ["output/vt100.py not found"], []
    cls = [n for n in tree.body if isinstance(n, ast.ClassDef) and n.name == "Vt100_Output"]
    if len(cls) != 1:
        return ["output/vt100.py: class Vt100_Output not found"], []
    methods = {m.name: m for m in cls[0].body if isinstance(m, (ast.FunctionDef, ast.AsyncFunctionDef))}

    def body_is(name, text):
        m = methods.get(name)
        if m is None:
            return False
        stmts = [x for x in m.body if not (isinstance(x, ast.Expr) and isinstance(x.value, ast.Constant))]
        return len(stmts) == 1 and _u(stmts[0]) == text
    if not body_is("write", VT_WRITE_BODY):
        problems.append("vt100.py Vt100_Output.write is no longer `%s`" % VT_WRITE_BODY)
    if not body_is("write_raw", VT_WRITE_RAW_BODY):
        problems.append("vt100.py Vt100_Output.write_raw is no longer `%s`" % VT_WRITE_RAW_BODY)
    for name, m in methods.items():
        for n in ast.walk(m):
            if isinstance(n, ast.Attribute) and n.attr == "_buffer" and name not in VT_BUFFER_METHODS:
                problems.append("vt100.py line %d: Vt100_Output.%s touches self._buffer directly" % (n.lineno, name))
            if not (isinstance(n, ast.Call) and isinstance(n.func, ast.Attribute) and n.func.attr in ("write_raw", "write")):
                continue
            if _u(n.func.value) != "self":
                continue        # some other object's write (flush_stdout's stdout is in output/flush_stdout.py)
            if n.func.attr == "write":
                problems.append("vt100.py line %d: Vt100_Output.%s calls self.write(..)" % (n.lineno, name))
                continue
            a = n.args[0] if len(n.args) == 1 and not n.keywords else None
            if isinstance(a, ast.Constant) and isinstance(a.value, str):
                rows.append((name, 0, a.value))
            elif isinstance(a, ast.BinOp) and isinstance(a.op, ast.Mod) and isinstance(a.left, ast.Constant) and isinstance(a.left.value, str):
                fmt = a.left.value
                if fmt.replace("%i", "").count("%"):
                    problems.append("vt100.py line %d: format %r has a conversion other than %%i" % (n.lineno, fmt))
                rows.append((name, 1, fmt))
            elif a is not None and _u(a) == "escape_code_cache[attrs]" and name == "set_attributes":
                rows.append((name, 2, ""))
            elif a is not None and name == "set_title" and _u(a) == VT_TITLE_ARG:
                rows.append((name, 4, "\x1b]2;{}\x07"))
            elif isinstance(a, ast.Call) and isinstance(a.func, ast.Attribute) and a.func.attr == "get" and isinstance(a.func.value, ast.Dict) \
                    and all(isinstance(v, ast.Constant) and isinstance(v.value, str) for v in a.func.value.values) \
                    and len(a.args) == 2 and isinstance(a.args[1], ast.Constant) and isinstance(a.args[1].value, str):
                for v in a.func.value.values:
                    rows.append((name, 0, v.value))
                rows.append((name, 0, a.args[1].value))
            else:
                problems.append("vt100.py line %d: Vt100_Output.%s: unreviewed raw write `%s`" % (n.lineno, name, _u(n)[:100]))
    if len(rows) < 30:
        problems.append("vt100.py: only %d write_raw call sites recognised in Vt100_Output (expected >= 30)" % len(rows))
    return problems, rows


def t_C10_DisplayMappings():
    from prompt_toolkit.layout.screen import Char
    dm = Char.display_mappings
    if type(dm) is not dict or not (1 <= len(dm) < 100000):
        die("Char.display_mappings has an unexpected shape")
    rows = []
    for k, v in dm.items():
        if not isinstance(k, str) or not isinstance(v, str):
            die("display_mappings entry %r: %r is not str -> str" % (k, v))
        if len(k) != 1:
            die("display_mappings key %r is not a single character (Char.__init__'s `char in display_mappings` "
                "is modelled for single-character keys)" % (k,))
        rows.append("(%d, %s)" % (ord(k), zstr(v)))
    problems, sites = scan()
    vt_problems, vt_rows = scan_vt100()
    problems = problems + vt_problems
    for pr in problems:
        sys.stderr.write("gen_t_c10: structural side condition failed: " + pr + "\n")
    from prompt_toolkit.input.ansi_escape_sequences import ANSI_SEQUENCES
    from prompt_toolkit.utils import get_cwidth
    if type(ANSI_SEQUENCES) is not dict or not (100 < len(ANSI_SEQUENCES) < 5000) or not all(isinstance(k, str) for k in ANSI_SEQUENCES):
        die("unexpected ANSI_SEQUENCES shape")
    seqs = ["(%s, %d)" % (zstr(k), get_cwidth(k)) for k in ANSI_SEQUENCES if len(k) > 1]
    import collections
    cls = collections.Counter(c for c, _ in getattr(scan, "classes", []))
    body = ("(* Char.display_mappings of layout/screen.py: code point -> display string *)\n"
            "Definition display_mappings : list (Z * list Z) :=\n  [" + ";\n   ".join(rows) + "].\n\n"
            "(* AST scan of the screen-cell / zero-width-escape stores and write_raw call sites\n"
            "   (gen/gen_t_c10.py scan): %d sites classified, %d problem(s)%s *)\n"
            "Definition store_sites_reviewed : bool := %s.\n\n"
            "(* text arguments of the stored Char(..)/_CHAR_CACHE[..] by dataflow class: %s *)\n"
            "Definition text_args_reviewed_by_hand : Z := %d.\n\n"
            "(* completion.py _display_completions_like_readline.display prints completion display text with\n"
            "   app.print_text; true when it maps it through _show_control_characters first (finding C10-F2 repaired) *)\n"
            "Definition readline_listing_mapped : bool := %s.\n\n"
            "(* input/ansi_escape_sequences.py ANSI_SEQUENCES: every key of more than one character,\n"
            "   with utils.get_cwidth of it (the data a multi-character key press can carry) *)\n"
            "Definition key_sequences : list (list Z * Z) :=\n  [%s].\n\n"
            "(* the text argument of every Char(..)/_CHAR_CACHE[..] stored into a screen cell: (class, text) with class\n"
            "   0 literal (text = its value), 1 char, 2 merge, 3 restyle, 4 reviewed (text = the source expression) *)\n"
            "Definition cell_text_sites : list (Z * list Z) :=\n  [%s].\n\n"
            "(* output/vt100.py Vt100_Output: the argument of every self.write_raw(..): (method, kind, text) with kind\n"
            "   0 literal, 1 literal %% ints (only %%i conversions), 2 escape_code_cache[attrs], 4 set_title's format;\n"
            "   write / write_raw bodies and direct uses of self._buffer are checked by the scan *)\n"
            "Definition vt100_raw_sites : list (list Z * Z * list Z) :=\n  [%s].\n"
            % (len(sites), len(problems),
               "".join("\n   - " + pr.replace("*)", "* )").replace("(*", "( *") for pr in problems[:10]),
               "false" if problems else "true",
               ", ".join("%s %d" % kv for kv in sorted(cls.items())), cls.get("reviewed", 0),
               "true" if getattr(scan, "readline_mapped", False) else "false",
               ";\n   ".join(seqs),
               ";\n   ".join("(%d, %s)" % (CLASS_CODE[c], zstr(t)) for c, t in getattr(scan, "class_rows", [])),
               ";\n   ".join("(%s, %d, %s)" % (zstr(m), k, zstr(t)) for m, k, t in vt_rows)))
    return emit("C10_DisplayMappings", body)


TABLES = {"C10_DisplayMappings": t_C10_DisplayMappings}

if __name__ == "__main__":
    pr, st = scan(sys.argv[1] if len(sys.argv) > 1 else None)
    vp, vr = scan_vt100(sys.argv[1] if len(sys.argv) > 1 else None)
    pr += vp
    for r in vr:
        print("vt100", r)
    for s in st:
        print("site", s)
    for p in pr:
        print("PROBLEM", p)
    sys.exit(2 if pr else 0)
