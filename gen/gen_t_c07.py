"""C07 table: the save_before class of every key binding a PromptSession really
has (load_key_bindings() + the prompt's own bindings, merged the way
Application._CombinedRegistry merges them for the focused default buffer),
which handlers call Buffer.undo/redo, and which rows are the "typed
character / backspace / delete" bindings the property's grouping clause is
about.  -> coq/Gen/C07_Bindings.v

Row = (cls, act, role)
  cls  0 save_before(event) is False for both probe events (never snapshot)
       1 True for both (snapshot before every invocation)
       2 True for is_repeat=False, False for is_repeat=True (if_no_repeat)
  act  0 handler does not mention undo/redo; 1 its code calls .undo; 2 .redo
  role 1 self-insert on <any>; 2 backward-delete-char on backspace (c-h);
       3 delete-char on delete / c-delete; 4 undo handler bound to 'u' (vi);
       5 undo handler bound to c-_ or c-x c-u (emacs);
       6 Vi multiple-cursor insert on <any>; 7 the cursor-position-report binding;
       8 kill-line on c-k; 9 kill-word on escape d; 10 yank on c-y;
       11 backward-char on left / c-b; 12 forward-char on right / c-f; 0 anything else
Fail closed (exit 2) on anything unexpected.
"""
import hashlib
import sys
import types


def _safe(s):
    """text that is safe inside a Coq comment (no quotes, no comment brackets)"""
    return "".join(c if (c.isalnum() or c in " -_.<>") else "U+%04X" % ord(c) for c in s)


def _die(msg):
    sys.stderr.write("gen_t_c07: " + msg + "\n")
    sys.exit(2)


def live_bindings(app):
    """The merged Binding list the KeyProcessor of `app` matches against
    (focus on the default buffer).  Call inside set_app(app)."""
    reg = app.key_processor._bindings
    kb = reg._key_bindings
    return list(kb.bindings)


def probe_class(binding):
    res = []
    for rep in (False, True):
        ev = types.SimpleNamespace(is_repeat=rep)
        try:
            v = binding.save_before(ev)
        except Exception as e:  # a save_before that looks at anything else: unknown shape
            raise ValueError("save_before of %r raised %r on a probe event" % (binding, e))
        if v is not True and v is not False:
            raise ValueError("save_before of %r returned non-bool %r" % (binding, v))
        res.append(v)
    cls = {(False, False): 0, (True, True): 1, (True, False): 2}.get(tuple(res))
    if cls is None:
        raise ValueError("save_before of %r is True only on repeats" % (binding,))
    return cls


def handler_act(binding):
    code = getattr(binding.handler, "__code__", None)
    if code is None:
        raise ValueError("handler without __code__: %r" % (binding.handler,))
    names = set(code.co_names)
    u, r = "undo" in names, "redo" in names
    if u and r:
        raise ValueError("handler mentions both undo and redo: %r" % (binding.handler,))
    return 1 if u else 2 if r else 0


def key_name(k):
    return getattr(k, "value", k)


def row_of(binding):
    from prompt_toolkit.key_binding.bindings.named_commands import get_by_name
    from prompt_toolkit.keys import Keys
    cls = probe_class(binding)
    act = handler_act(binding)
    keys = tuple(binding.keys)
    h = binding.handler
    role = 0
    if h is get_by_name("self-insert").handler and keys == (Keys.Any,):
        role = 1
    elif h is get_by_name("backward-delete-char").handler and keys == (Keys.ControlH,):
        role = 2
    elif h is get_by_name("delete-char").handler and keys in ((Keys.Delete,), (Keys.ControlDelete,)):
        role = 3
    elif act == 1 and keys == ("u",):
        role = 4
    elif act == 1 and keys in ((Keys.ControlUnderscore,), (Keys.ControlX, Keys.ControlU)):
        role = 5
    elif keys == (Keys.Any,) and getattr(h, "__name__", "") == "_insert_text_multiple_cursors":
        role = 6
    elif keys == (Keys.CPRResponse,):
        role = 7
    elif h is get_by_name("kill-line").handler and keys == (Keys.ControlK,):
        role = 8
    elif h is get_by_name("kill-word").handler and keys == (Keys.Escape, "d"):
        role = 9
    elif h is get_by_name("yank").handler and keys == (Keys.ControlY,):
        role = 10
    elif h is get_by_name("backward-char").handler and keys in ((Keys.Left,), (Keys.ControlB,)):
        role = 11
    elif h is get_by_name("forward-char").handler and keys in ((Keys.Right,), (Keys.ControlF,)):
        role = 12
    name = "%s.%s" % (getattr(h, "__module__", "?").replace("prompt_toolkit.", ""), getattr(h, "__qualname__", "?"))
    return (cls, act, role), " ".join(str(key_name(k)) for k in keys), name


def compute_rows(app):
    """[(row, keys, handler name)] for the live bindings of `app` (inside set_app)."""
    return [row_of(b) for b in live_bindings(app)]


def rows_digest(rows):
    return hashlib.sha1(repr([(r, k, n) for r, k, n in rows]).encode()).hexdigest()


def default_rows():
    from prompt_toolkit import PromptSession
    from prompt_toolkit.application import create_app_session
    from prompt_toolkit.application.current import set_app
    from prompt_toolkit.input import create_pipe_input
    from prompt_toolkit.output import DummyOutput
    with create_pipe_input() as inp:
        with create_app_session(input=inp, output=DummyOutput()):
            s = PromptSession()
            with set_app(s.app):
                return compute_rows(s.app)


def t_C07_Bindings():
    from gen_tables import emit
    try:
        rows = default_rows()
    except ValueError as e:
        _die(str(e))
    if not (100 < len(rows) < 5000):
        _die("unexpected number of bindings: %d" % len(rows))
    if not any(r[0][1] == 1 for r in rows):
        _die("no binding calls Buffer.undo - the table extraction no longer sees the undo handlers")
    body = "(* sha1 %s *)\n" % rows_digest(rows)
    body += "(* (cls, act, role) per binding, in registry order; see gen/gen_t_c07.py *)\n"
    body += "Definition c07_rows : list (Z * Z * Z) :=\n  [\n"
    lines = []
    for i, (r, k, n) in enumerate(rows):
        lines.append("   (%d, %d, %d)%s (* %d: %s -> %s *)" % (r[0], r[1], r[2], ";" if i + 1 < len(rows) else " ", i,
                                                               _safe(k), _safe(n)))
    body += "\n".join(lines) + "\n  ].\n"
    body += "(* number of bindings the extraction saw (proved equal to the length of the list) *)\n"
    body += "Definition c07_nrows : Z := %d.\n" % len(rows)
    return emit("C07_Bindings", body)


TABLES = {"C07_Bindings": t_C07_Bindings}
