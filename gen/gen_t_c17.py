"""C17 table: the key bindings of a real default PromptSession (emacs mode,
default buffer focused), as rows (key patterns, effect code, activity mask,
eager mask), in registration order -> coq/Gen/C17_Bindings.v

Activity/eager masks: bit i = value of binding.filter() / binding.eager() in
application state i, i = (1 if the buffer is non-empty) + (2 if there is text
before the cursor) + (4 if app.quoted_insert): the conditions that change
while the scripts of the C17 correspondence run.  A binding inactive in all
states is left out.  Effect codes name the
handlers the model (coq/Model/C17_Emacs.v) implements; every other handler is
99 (98 when its source mentions exit()/validate_and_handle: it may end the
prompt; 97 when it mentions feed(/feed_multiple(: it may put key presses into
the processor)."""
import inspect
import sys

from gen_tables import emit, zlist

EFFECTS = {
    ("named_commands", "self_insert"): 1,
    ("named_commands", "backward_char"): 2,
    ("named_commands", "forward_char"): 3,
    ("named_commands", "beginning_of_line"): 4,
    ("named_commands", "end_of_line"): 5,
    ("named_commands", "backward_delete_char"): 6,
    ("named_commands", "delete_char"): 7,
    ("named_commands", "kill_line"): 8,
    ("named_commands", "unix_line_discard"): 9,
    ("named_commands", "backward_word"): 10,
    ("named_commands", "forward_word"): 11,
    ("basic", "load_basic_bindings.<locals>._ignore"): 12,
    ("emacs", "load_emacs_bindings.<locals>._esc"): 12,
    ("named_commands", "accept_line"): 13,
    ("prompt", "PromptSession._create_prompt_bindings.<locals>._accept_input"): 13,
    ("prompt", "PromptSession._create_prompt_bindings.<locals>._keyboard_interrupt"): 14,
    ("prompt", "PromptSession._create_prompt_bindings.<locals>._eof"): 15,
    ("named_commands", "quoted_insert"): 16,
    ("basic", "load_basic_bindings.<locals>._insert_text"): 17,
    ("basic", "load_basic_bindings.<locals>._paste"): 18,
    ("cpr", "load_cpr_bindings.<locals>._"): 19,
    ("gen_t_c17", "c17_extra_noop"): 12,
    ("basic", "load_basic_bindings.<locals>._newline2"): 20,     # C-j: feeds ControlM with first=True
    ("named_commands", "operate_and_get_next"): 21,              # c-o: accepts the line
    ("named_commands", "insert_comment"): 22,                    # ESC #: '#' in front of every line, then accepts
}
KEY_OFFSET = 1000       # a one-character key c is KEY_OFFSET + ord(c); a Keys member its index in list(Keys)


def c17_extra_noop(event):
    """handler of the user binding ('c-c', 'c-c') of the 'extra' scenarios: it makes c-c, which
    ends the prompt, the prefix of a longer binding, so that the exit fires from the retry scan"""


def extra_key_bindings():
    from prompt_toolkit.key_binding import KeyBindings
    kb = KeyBindings()
    kb.add("c-c", "c-c")(c17_extra_noop)
    return kb


def die(msg):
    sys.stderr.write("gen_t_c17: " + msg + "\n")
    sys.exit(2)


def effect_of(handler):
    h = inspect.unwrap(handler)
    mod = getattr(h, "__module__", "").split(".")[-1]
    qn = getattr(h, "__qualname__", "")
    code = EFFECTS.get((mod, qn))
    if code is not None:
        return code
    try:
        src = inspect.getsource(h)
    except (OSError, TypeError):
        return 98
    if ".exit(" in src or "validate_and_handle" in src or "exit(" in src:
        return 98
    if ".feed(" in src or "feed_multiple(" in src:
        return 97
    return 99


def key_code(k, kid):
    from prompt_toolkit.keys import Keys
    if k is Keys.Any or k == Keys.Any:
        return -1
    if isinstance(k, Keys):
        return kid[k]
    if isinstance(k, str) and len(k) == 1:
        return KEY_OFFSET + ord(k)
    die("unexpected key in a binding: %r" % (k,))


def session_rows(extra=False):
    """(rows, kid); also used by harness/c17.py to map handlers to effect codes."""
    import asyncio

    async def go():
        return _session_rows(extra)
    return asyncio.run(go())


def _session_rows(extra=False):
    from prompt_toolkit import PromptSession
    from prompt_toolkit.application import create_app_session
    from prompt_toolkit.application.current import set_app
    from prompt_toolkit.document import Document
    from prompt_toolkit.input import create_pipe_input
    from prompt_toolkit.keys import Keys
    from prompt_toolkit.output import DummyOutput

    keys = list(Keys)
    kid = {k: i for i, k in enumerate(keys)}
    rows = []
    with create_pipe_input() as inp:
        with create_app_session(input=inp, output=DummyOutput()):
            s = PromptSession(key_bindings=extra_key_bindings()) if extra else PromptSession()
            app = s.app
            with set_app(app):
                try:
                    bs = list(app.key_processor._bindings._key_bindings.bindings)
                except Exception as e:  # noqa
                    die("cannot read the effective binding list: %r" % (e,))
                if not (300 < len(bs) < 2000):
                    die("unexpected number of bindings: %d" % len(bs))
                for b in bs:
                    am = em = 0
                    for i in range(8):
                        if (i & 2) and not (i & 1):
                            continue        # text before the cursor in an empty buffer: no such state
                        app.current_buffer.set_document(Document("x" if i & 1 else "", 1 if i & 2 else 0), bypass_readonly=True)
                        app.quoted_insert = bool(i & 4)
                        if b.filter():
                            am |= 1 << i
                        if b.eager():
                            em |= 1 << i
                    app.current_buffer.set_document(Document("", 0), bypass_readonly=True)
                    app.quoted_insert = False
                    if am == 0:
                        continue
                    rows.append(([key_code(k, kid) for k in b.keys], effect_of(b.handler), am, em, b))
    return rows, kid


def t_C17_Bindings():
    from prompt_toolkit.keys import Keys
    rows, kid = session_rows()
    if not (100 < len(rows) < 600):
        die("unexpected number of active bindings: %d" % len(rows))
    effs = [r[1] for r in rows]
    for need in (1, 12, 13, 14, 15, 16, 17, 18, 19, 20, 21, 22):
        if need not in effs:
            die("no active binding with effect %d (the model's handler table no longer fits)" % need)
    for pats, eff, am, em, b in rows:
        if not pats:
            die("binding without keys")
    body = "(* %d bindings active in at least one of the six states *)\n" % len(rows)
    body += "Definition c17_key_offset : Z := %d.\n" % KEY_OFFSET
    body += "Definition c17_key_CPRResponse : Z := %d.\n" % kid[Keys.CPRResponse]
    body += "Definition c17_key_BracketedPaste : Z := %d.\n" % kid[Keys.BracketedPaste]
    body += "Definition c17_bindings : list (list Z * (Z * (Z * Z))) := [\n"
    body += ";\n".join("  (%s, (%d, (%d, %d)))" % (zlist(p), e, am, em) for p, e, am, em, _ in rows)
    body += "].\n"
    # the same session with the user binding ('c-c', 'c-c'): its rows come after all the others
    xrows, _ = session_rows(extra=True)
    if [r[:4] for r in xrows[:len(rows)]] != [r[:4] for r in rows] or len(xrows) != len(rows) + 1:
        die("the user key bindings of PromptSession(key_bindings=...) are no longer merged after all other bindings")
    body += "Definition c17_extra_rows : list (list Z * (Z * (Z * Z))) := [\n"
    body += ";\n".join("  (%s, (%d, (%d, %d)))" % (zlist(p), e, am, em) for p, e, am, em, _ in xrows[len(rows):])
    body += "].\n"
    return emit("C17_Bindings", body)


TABLES = {"C17_Bindings": t_C17_Bindings}
