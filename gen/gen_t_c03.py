"""C03 tables: ANSI_SEQUENCES, Keys ids, the four hard-coded regexes' pattern
strings (fail closed when they change: coq/Model/C03_Vt100Parser.v has hand
recognisers for exactly these patterns), re's \\d class, the paste end mark.
-> coq/Gen/C03_AnsiSequences.v"""
import re
import sys

from gen_tables import emit, zlist, zstr

ESC_BR = re.escape("\x1b[")
EXPECTED_PATTERNS = {
    "_cpr_response_re": "^" + ESC_BR + r"\d+;\d+R\Z",
    "_mouse_event_re": "^" + ESC_BR + r"(<?[\d;]+[mM]|M...)\Z",
    "_cpr_response_prefix_re": "^" + ESC_BR + r"[\d;]*\Z",
    "_mouse_event_prefix_re": "^" + ESC_BR + r"(<?[\d;]*|M.{0,2})\Z",
}
END_MARK = "\x1b[201~"


def die(msg):
    sys.stderr.write("gen_t_c03: " + msg + "\n")
    sys.exit(2)


def t_C03_AnsiSequences():
    from prompt_toolkit.input import vt100_parser as vp
    from prompt_toolkit.input.ansi_escape_sequences import ANSI_SEQUENCES
    from prompt_toolkit.keys import Keys

    if vp.ANSI_SEQUENCES is not ANSI_SEQUENCES:
        die("vt100_parser.ANSI_SEQUENCES is not ansi_escape_sequences.ANSI_SEQUENCES")
    # the regexes: exact pattern strings and flags (str pattern => re.UNICODE only)
    for name, pat in EXPECTED_PATTERNS.items():
        rx = getattr(vp, name, None)
        if not isinstance(rx, re.Pattern):
            die("%s is not a compiled regex" % name)
        if rx.pattern != pat:
            die("%s pattern changed: %r (hand recogniser written for %r)" % (name, rx.pattern, pat))
        if rx.flags != re.UNICODE:
            die("%s flags changed: %r" % (name, rx.flags))
    # the paste end mark is a literal of Vt100Parser.feed
    if END_MARK not in vp.Vt100Parser.feed.__code__.co_consts:
        die("paste end mark %r is no longer a constant of Vt100Parser.feed" % END_MARK)
    if 6 not in vp.Vt100Parser.feed.__code__.co_consts and "len" not in vp.Vt100Parser.feed.__code__.co_names:
        die("Vt100Parser.feed no longer computes len(end_mark)")
    keys = list(Keys)
    kid = {k: i for i, k in enumerate(keys)}
    if not (100 < len(keys) < 400):
        die("unexpected number of Keys: %d" % len(keys))
    for k in keys:
        if not isinstance(k.value, str) or k.value == "" or len(k.value) == 1:
            die("Keys value %r is empty or a single character (would collide with raw characters)" % (k,))
    if not (100 < len(ANSI_SEQUENCES) < 2000) or type(ANSI_SEQUENCES) is not dict:
        die("unexpected ANSI_SEQUENCES shape")
    rows = []
    for s, v in ANSI_SEQUENCES.items():
        if not isinstance(s, str):
            die("non-str key %r" % (s,))
        if isinstance(v, tuple):
            vs = list(v)
        else:
            vs = [v]
        if not vs or not v:
            die("falsy value for %r" % (s,))
        for x in vs:
            if not isinstance(x, Keys):
                die("value of %r is not a Keys member: %r" % (s, x))
        rows.append("  (%s, %s)" % (zstr(s), zlist(kid[x] for x in vs)))
    # \d of the re module for str patterns, as ranges
    nd = [c for c in range(0x110000) if re.match(r"\d\Z", chr(c))]
    if not (10 <= len(nd) < 5000) or nd[:10] != list(range(48, 58)):
        die("unexpected \\d class")
    for c in (10, 59, 60, 77, 82, 109, 126, 27, 91):
        if c in nd:
            die("\\d contains %d" % c)
    ranges = []
    for c in nd:
        if ranges and ranges[-1][1] == c - 1:
            ranges[-1][1] = c
        else:
            ranges.append([c, c])
    # '.' without DOTALL: everything but "\n" (checked on the whole code space)
    dot_excl = [c for c in range(0x110000) if not re.match(r".\Z", chr(c))]
    if dot_excl != [10]:
        die("'.' excludes %r" % dot_excl[:10])
    body = "(* %d sequences, %d Keys *)\n" % (len(rows), len(keys))
    body += "Definition ansi_table : list (list Z * list Z) := [\n" + ";\n".join(rows) + "].\n\n"
    for nm in ("BracketedPaste", "CPRResponse", "Vt100MouseEvent", "Escape"):
        body += "Definition key_%s : Z := %d.\n" % (nm, kid[getattr(Keys, nm)])
    body += "Definition n_keys : Z := %d.\n\n" % len(keys)
    body += "Definition re_digit_ranges : list (Z * Z) := [\n  " + "; ".join("(%d, %d)" % (a, b) for a, b in ranges) + "].\n\n"
    for name, pat in EXPECTED_PATTERNS.items():
        body += "Definition pat%s : list Z := %s.\n" % (name, zstr(pat))
    body += "Definition paste_end_mark : list Z := %s.\n" % zstr(END_MARK)
    return emit("C03_AnsiSequences", body)


TABLES = {"C03_AnsiSequences": t_C03_AnsiSequences}


# ---------------------------------------------------------------------------
# the four patterns as ASTs (coq/Lib/C03_Regex.v), parsed by re's own parser

def _cset(items):
    from re import _constants as C
    out = None
    for op, av in items:
        if op is C.LITERAL:
            x = "(CChr %d)" % av
        elif op is C.CATEGORY and av is C.CATEGORY_DIGIT:
            x = "CDigit"
        else:
            die("unsupported character-set item %r %r" % (op, av))
        out = x if out is None else "(CUnion %s %s)" % (out, x)
    if out is None:
        die("empty character set")
    return out


def _seq(items):
    xs = [_node(op, av) for op, av in items]
    return "(cat_list [%s])" % "; ".join(xs)


def _node(op, av):
    from re import _constants as C
    if op is C.LITERAL:
        return "(RSet (CChr %d))" % av
    if op is C.ANY:
        return "(RSet CAny)"
    if op is C.IN:
        return "(RSet %s)" % _cset(av)
    if op is C.MAX_REPEAT:
        lo, hi, sub = av
        x = _seq(list(sub))
        if (lo, hi) == (0, C.MAXREPEAT):
            return "(RStar %s)" % x
        if (lo, hi) == (1, C.MAXREPEAT):
            return "(RPlus %s)" % x
        if (lo, hi) == (0, 1):
            return "(ROpt %s)" % x
        if (lo, hi) == (0, 2):
            return "(ROpt (RCat %s (ROpt %s)))" % (x, x)
        die("unsupported repeat {%r,%r}" % (lo, hi))
    if op is C.SUBPATTERN:
        group, add_flags, del_flags, sub = av
        if add_flags or del_flags:
            die("inline flags are not supported")
        return _seq(list(sub))
    if op is C.BRANCH:
        _, alts = av
        xs = [_seq(list(a)) for a in alts]
        out = xs[-1]
        for x in reversed(xs[:-1]):
            out = "(RAlt %s %s)" % (x, out)
        return out
    die("unsupported regex construct %r" % (op,))


def regex_ast(pattern):
    import re as _re
    from re import _constants as C
    items = list(_re._parser.parse(pattern))
    if len(items) < 2 or items[0] != (C.AT, C.AT_BEGINNING) or items[-1] != (C.AT, C.AT_END_STRING):
        die("pattern %r is not anchored ^...\\Z" % pattern)
    return _seq(items[1:-1])


def t_C03_Regexes():
    import re as _re
    from prompt_toolkit.input import vt100_parser as vp
    body = "From PTK Require Import Lib.C03_Regex.\n\n"
    for name in EXPECTED_PATTERNS:
        rx = getattr(vp, name, None)
        if not isinstance(rx, _re.Pattern) or not isinstance(rx.pattern, str):
            die("%s is not a compiled str regex" % name)
        if rx.flags != _re.UNICODE:
            die("%s flags changed: %r" % (name, rx.flags))
        body += "(* %r *)\nDefinition ast%s : re :=\n  %s.\n\n" % (rx.pattern, name, regex_ast(rx.pattern))
    return emit("C03_Regexes", body)


TABLES["C03_Regexes"] = t_C03_Regexes
