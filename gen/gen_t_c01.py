"""C01 table: the full case mapping of the CPython that runs /repo, i.e. what
`str.upper()`, `str.lower()` and `str.title()` are made of
(Objects/unicodeobject.c do_upper / do_lower / do_title):

  * c01_case_table: (c, (upper, (lower, title))) for every code point c of
    range(0x110000) one of whose one-character images chr(c).upper(),
    chr(c).lower(), chr(c).title() differs from chr(c)
    (_PyUnicode_ToUpperFull / ToLowerFull / ToTitleFull; on a one-character
    string U+03A3 has no Final_Sigma context so lower() is ToLowerFull there
    too).  Images may have 1 to 3 code points.  Sorted strictly increasing.
  * c01_cased_ranges / c01_case_ignorable_ranges: _PyUnicode_IsCased and
    _PyUnicode_IsCaseIgnorable as inclusive, sorted, disjoint, non-adjacent
    ranges.  The two predicates are not exposed in Python; they are derived
    from behaviour:
      cased(c)      <=> (chr(c) + 'A').title()[-1] == 'a'
                        (do_title lowercases a character iff the previous one
                        is cased)
      ignorable(c)  <=> ('A' + chr(c) + 'Σ').lower()[-1] == 'ς'   c not cased
                        ('AΣ' + chr(c)).lower()[1] == 'ς'         c cased
                        (handle_capital_sigma skips case-ignorable characters
                        backwards, then needs a cased one; forwards it skips
                        them, then needs end-of-string or a non-cased one)
    and cross-checked against redundant probes and against unicodedata.
    Surrogates (U+D800..U+DFFF) are NOT skipped: CPython's str methods accept
    lone surrogates, they are simply neither cased nor case-ignorable and map
    to themselves (checked below).

Fail-closed: any inconsistency is exit 2.
-> coq/Gen/C01_CaseMap.v"""
import sys
import unicodedata

from gen_tables import emit, zlist

N = 0x110000
SIGMA, SMALL_SIGMA, FINAL_SIGMA = "Σ", "σ", "ς"


def die(msg):
    sys.stderr.write("gen_t_c01: " + msg + "\n")
    sys.exit(2)


def ranges(cs):
    """sorted list of ints -> maximal inclusive ranges"""
    out = []
    for c in cs:
        if out and out[-1][1] + 1 == c:
            out[-1][1] = c
        else:
            out.append([c, c])
    return [(a, b) for a, b in out]


def cased(c):
    ch = chr(c)
    r = (ch + "A").title()
    if r[-1] not in "aA":
        die("title probe: unexpected last character for U+%04X" % c)
    k = r[-1] == "a"
    # redundant probe through a different letter
    r2 = (ch + "Z").title()
    if (r2[-1] == "z") != k or r2[-1] not in "zZ":
        die("title probes disagree on cased(U+%04X)" % c)
    return k


def ignorable(c, is_cased):
    ch = chr(c)
    if is_cased:
        r = ("A" + SIGMA + ch).lower()
        if r[0] != "a" or r[1] not in (SMALL_SIGMA, FINAL_SIGMA):
            die("sigma probe (cased): unexpected shape for U+%04X" % c)
        k = r[1] == FINAL_SIGMA
        # redundant: before the sigma, followed by a cased letter that stops
        # the backward scan only if c is not ignorable; both give 'cased
        # before', so use the forward context with a trailing uncased char
        r2 = ("A" + SIGMA + ch + "1").lower()
        if (r2[1] == FINAL_SIGMA) != k:
            die("sigma probes disagree on ignorable(U+%04X) (cased)" % c)
        # an ignorable c followed by a cased letter: not final
        r3 = ("A" + SIGMA + ch + "b").lower()
        if r3[1] != SMALL_SIGMA:
            die("sigma probe: U+%04X then 'b' still final" % c)
    else:
        r = ("A" + ch + SIGMA).lower()
        if r[0] != "a" or r[-1] not in (SMALL_SIGMA, FINAL_SIGMA):
            die("sigma probe (uncased): unexpected shape for U+%04X" % c)
        k = r[-1] == FINAL_SIGMA
        # redundant: forward context; Σ c b is final iff c is NOT ignorable
        # (c uncased) -- with c ignorable the scan reaches the cased 'b'
        r2 = ("A" + SIGMA + ch + "b").lower()
        if (r2[1] == SMALL_SIGMA) != k:
            die("sigma probes disagree on ignorable(U+%04X) (uncased)" % c)
        # without a cased character before, never final
        r3 = (ch + SIGMA).lower()
        if r3[-1] != SMALL_SIGMA:
            die("sigma probe: U+%04X alone gives a final sigma" % c)
    return k


def t_C01_CaseMap():
    table = []
    cased_cs, ign_cs = [], []
    for c in range(N):
        ch = chr(c)
        u, l, t = ch.upper(), ch.lower(), ch.title()
        for img in (u, l, t):
            if not 1 <= len(img) <= 3:
                die("image of U+%04X has length %d" % (c, len(img)))
        if u != ch or l != ch or t != ch:
            table.append((c, u, l, t))
        k = cased(c)
        if k:
            cased_cs.append(c)
        ig = ignorable(c, k)
        if ig:
            ign_cs.append(c)
        cat = unicodedata.category(ch)
        if cat in ("Lu", "Ll", "Lt") and not k:
            die("U+%04X has category %s but is not cased" % (c, cat))
        if cat in ("Mn", "Me", "Cf", "Lm", "Sk") and not ig:
            die("U+%04X has category %s but is not case-ignorable" % (c, cat))
        if 0xD800 <= c <= 0xDFFF and (k or ig or u != ch or l != ch or t != ch):
            die("surrogate U+%04X is cased / ignorable / mapped" % c)
        # str.isupper/islower/istitle characters are cased
        if (ch.isupper() or ch.islower()) and not k:
            die("U+%04X isupper/islower but not cased" % c)

    keys = [e[0] for e in table]
    if keys != sorted(set(keys)):
        die("table keys not strictly increasing")
    d = {e[0]: e for e in table}
    if not 2500 <= len(table) <= 4000:
        die("implausible table size %d" % len(table))
    if d.get(223) != (223, "SS", "\xdf", "Ss"):
        die("U+00DF entry is %r" % (d.get(223),))
    if 97 not in d or d[97][1] != "A" or d[97][3] != "A" or d[97][2] != "a":
        die("'a' entry is %r" % (d.get(97),))
    if 0x3A3 not in d or d[0x3A3][2] != SMALL_SIGMA:
        die("U+03A3 entry is %r" % (d.get(0x3A3),))
    if d.get(0x130, (0, "", "", ""))[2] != "i̇":
        die("U+0130 entry is %r" % (d.get(0x130),))
    for c in range(128):
        want = (97 <= c <= 122) or (65 <= c <= 90)
        if (c in d) != want:
            die("ASCII U+%04X table membership" % c)
    cr, ir = ranges(cased_cs), ranges(ign_cs)
    if not (100 <= len(cr) <= 400 and 200 <= len(ir) <= 900):
        die("implausible range counts %d %d" % (len(cr), len(ir)))
    if (65, 90) not in cr or (97, 122) not in cr:
        die("ASCII letters are not cased ranges")
    for c in (0x27, 0x2E, 0x3A, 0x5E, 0x60, 0xAD, 0x301, 0x2B0, 0x2019):
        if c not in ign_cs:
            die("U+%04X expected case-ignorable" % c)
    for c in (0x20, 0x31, 0x2D):
        if c in ign_cs or c in cased_cs:
            die("U+%04X expected neither cased nor case-ignorable" % c)

    def zs(s):
        return zlist(ord(x) for x in s)

    body = ("(* CPython %s, unicodedata %s *)\n" % (sys.version.split()[0], unicodedata.unidata_version))
    body += "(* (c, (upper, (lower, title))): %d entries, strictly increasing in c *)\n" % len(table)
    body += "Definition c01_case_table : list (Z * (list Z * (list Z * list Z))) :=\n  [\n"
    body += ";\n".join("  (%d, (%s, (%s, %s)))" % (c, zs(u), zs(l), zs(t)) for c, u, l, t in table)
    body += "\n  ].\n\n"
    body += "(* _PyUnicode_IsCased: %d code points in %d inclusive ranges *)\n" % (len(cased_cs), len(cr))
    body += "Definition c01_cased_ranges : list (Z * Z) :=\n  [%s].\n\n" % "; ".join("(%d, %d)" % r for r in cr)
    body += "(* _PyUnicode_IsCaseIgnorable: %d code points in %d inclusive ranges *)\n" % (len(ign_cs), len(ir))
    body += "Definition c01_case_ignorable_ranges : list (Z * Z) :=\n  [%s].\n" % "; ".join("(%d, %d)" % r for r in ir)
    return emit("C01_CaseMap", body)


TABLES = {"C01_CaseMap": t_C01_CaseMap}
