"""C18 tables regenerated from /repo (and from the CPython that runs it):
   Gen/C18_Tables.v  - formatted_text/ansi.py: _fg_colors, _bg_colors, _256_colors
                       (the SGR code -> colour-name maps the ANSI parser consults);
                     - str.isdigit / int(): the decimal digits (68 runs of ten
                       consecutive code points, value = offset), the code points
                       str.isdigit accepts but int() rejects, and the int() digit
                       limit (sys.get_int_max_str_digits()).
   Fail closed on any unexpected shape."""
import sys
import unicodedata

from gen_tables import emit, zlist, zstr


def _die(msg):
    sys.stderr.write("gen_t_c18: " + msg + "\n")
    sys.exit(2)


def t_C18_Tables():
    from prompt_toolkit.formatted_text import ansi
    body = ""
    for nm, d in (("c18_fg_colors", ansi._fg_colors), ("c18_bg_colors", ansi._bg_colors),
                  ("c18_256_colors", ansi._256_colors)):
        if not isinstance(d, dict) or not d:
            _die("%s is not a non-empty dict" % nm)
        rows = []
        for k in sorted(d):
            v = d[k]
            if type(k) is not int or type(v) is not str or not v or k < 0:
                _die("%s: unexpected entry %r: %r" % (nm, k, v))
            rows.append("(%d, %s)" % (k, zstr(v)))
        body += "Definition %s : list (Z * list Z) :=\n  [%s].\n\n" % (nm, ";\n   ".join(rows))
    dig = [c for c in range(0x110000) if chr(c).isdigit()]
    dec = [c for c in range(0x110000) if chr(c).isdecimal()]
    zeros = [c for c in dec if unicodedata.decimal(chr(c)) == 0]
    for z in zeros:
        for i in range(10):
            ch = chr(z + i)
            if not (ch.isdecimal() and ch.isdigit() and unicodedata.decimal(ch) == i and int(ch) == i):
                _die("decimal digits are not runs of ten at U+%04X" % z)
    if len(zeros) * 10 != len(dec) or 48 not in zeros:
        _die("decimal digit table has an unexpected shape")
    decs = set(dec)
    nondec = [c for c in dig if c not in decs]
    for c in nondec:
        try:
            int(chr(c))
            _die("int() accepts non-decimal digit U+%04X" % c)
        except ValueError:
            pass
    lim = sys.get_int_max_str_digits()
    if type(lim) is not int or lim < 0:
        _die("int max str digits")
    body += "(* code points c with str.isdecimal and value 0; c..c+9 have values 0..9 *)\n"
    body += "Definition c18_decimal_zeros : list Z :=\n  %s.\n\n" % zlist(zeros)
    body += "(* str.isdigit() is true, int() raises ValueError *)\n"
    body += "Definition c18_nondecimal_digits : list Z :=\n  %s.\n\n" % zlist(nondec)
    body += "(* sys.get_int_max_str_digits(); 0 = unlimited *)\n"
    body += "Definition c18_int_max_str_digits : Z := %d.\n" % lim
    return emit("C18_Tables", body)


TABLES = {"C18_Tables": t_C18_Tables}
