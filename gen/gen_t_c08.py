"""C08 tables, regenerated from the repo under test:
  vi_register_names                       (bindings/vi.py)
  the four case-operator callbacks of vi_transform_functions on ASCII 0..127
  the key sequences of every Vi operator and every Vi text object in the
  effective registry of a PromptSession(vi_mode=True)
Proofs/C08_Tables.v compares them with what the model was written for, so a
new text object / operator / register name fails the proof build."""
import sys

from gen_tables import emit, zlist


def keycode(k):
    from prompt_toolkit.keys import Keys
    v = k.value if isinstance(k, Keys) else k
    if v == Keys.Any.value:
        return -2
    if len(v) == 1:
        return ord(v)
    return {"left": -10, "right": -11}.get(v, -99)


def t_C08_Tables():
    import prompt_toolkit.key_binding.bindings.vi as vi
    from prompt_toolkit import PromptSession
    from prompt_toolkit.application import create_app_session
    from prompt_toolkit.application.current import set_app
    from prompt_toolkit.input import create_pipe_input
    from prompt_toolkit.output import DummyOutput
    names = vi.vi_register_names
    if not isinstance(names, str) or not (10 <= len(names) <= 80):
        sys.stderr.write("gen_t_c08: vi_register_names has an unexpected shape\n")
        sys.exit(2)
    body = "Definition vi_register_names_table : list Z :=\n  %s.\n\n" % zlist(ord(c) for c in names)
    ops, tos = set(), set()
    funcs = {}
    with create_pipe_input() as inp:
        with create_app_session(input=inp, output=DummyOutput()):
            s = PromptSession(vi_mode=True, multiline=True)
            with set_app(s.app):
                bindings = s.app.key_processor._bindings._key_bindings.bindings
                for b in bindings:
                    n = getattr(b.handler, "__name__", "")
                    if n == "_apply_operator_to_text_object":
                        tos.add(tuple(keycode(k) for k in b.keys))
                    elif n == "_operator_in_navigation":
                        ops.add(tuple(keycode(k) for k in b.keys))
                        cl = b.handler.__closure__ or ()
                        for c in cl:
                            f = c.cell_contents
                            if callable(f) and getattr(f, "__closure__", None):
                                for c2 in f.__closure__:
                                    g = c2.cell_contents
                                    if callable(g) and getattr(g, "__name__", "") == "<lambda>":
                                        funcs[tuple(keycode(k) for k in b.keys)] = g
    if len(tos) < 40 or len(ops) < 10:
        sys.stderr.write("gen_t_c08: found %d text objects and %d operators - unexpected\n" % (len(tos), len(ops)))
        sys.exit(2)

    def ll(xs):
        return "[" + "; ".join(zlist(x) for x in sorted(xs)) + "]"
    body += "Definition text_object_keys : list (list Z) :=\n  %s.\n\n" % ll(tos)
    body += "Definition operator_keys : list (list Z) :=\n  %s.\n\n" % ll(ops)
    want = {"rot13": (103, 63), "lower": (103, 117), "upper": (103, 85), "swapcase": (103, 126)}
    ascii_ = "".join(chr(i) for i in range(128))
    for nm, key in want.items():
        f = funcs.get(key)
        if f is None:
            sys.stderr.write("gen_t_c08: no transform callback found for %r\n" % (key,))
            sys.exit(2)
        out = [f(ch) for ch in ascii_]
        if any(len(o) != 1 for o in out):
            sys.stderr.write("gen_t_c08: transform %s changes the length of an ASCII character\n" % nm)
            sys.exit(2)
        body += "Definition c08_%s_tab : list Z :=\n  %s.\n\n" % (nm, zlist(ord(o) for o in out))
    return emit("C08_Tables", body)


TABLES = {"C08_Tables": t_C08_Tables}
