"""C02 tables: the pattern strings (and flags) of the six word regexes of
prompt_toolkit.document.  The scanners in coq/Model/C02_DocQueries.v are
written for exactly these patterns; Proofs/C02_Patterns.v compares the
regenerated strings with the ones the scanners were written for, so a changed
pattern fails the proof build (fail closed)."""
import re
import sys

from gen_tables import emit, zstr

NAMES = [
    ("pat_find_word", "_FIND_WORD_RE"),
    ("pat_find_current_word", "_FIND_CURRENT_WORD_RE"),
    ("pat_find_current_word_ws", "_FIND_CURRENT_WORD_INCLUDE_TRAILING_WHITESPACE_RE"),
    ("pat_find_big_word", "_FIND_BIG_WORD_RE"),
    ("pat_find_current_big_word", "_FIND_CURRENT_BIG_WORD_RE"),
    ("pat_find_current_big_word_ws", "_FIND_CURRENT_BIG_WORD_INCLUDE_TRAILING_WHITESPACE_RE"),
]


def t_C02_Patterns():
    import prompt_toolkit.document as m
    body = ""
    for coq_name, attr in NAMES:
        r = getattr(m, attr, None)
        if not isinstance(r, re.Pattern) or not isinstance(r.pattern, str):
            sys.stderr.write("gen_t_c02: %s is not a compiled str regex\n" % attr)
            sys.exit(2)
        body += "Definition %s : list Z :=\n  %s.\n" % (coq_name, zstr(r.pattern))
        body += "Definition %s_flags : Z := %d.\n\n" % (coq_name, int(r.flags))
    # the word alphabet used by find_boundaries_of_current_word
    import string
    body += "Definition word_alphabet : list Z :=\n  %s.\n" % zstr(string.ascii_letters + "0123456789_")
    return emit("C02_Patterns", body)


TABLES = {"C02_Patterns": t_C02_Patterns}
