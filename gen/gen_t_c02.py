"""C02 tables: the pattern strings (and flags) of the six word regexes of
prompt_toolkit.document.  The scanners in coq/Model/C02_DocQueries.v are
written for exactly these patterns; Proofs/C02_Patterns.v compares the
regenerated strings with the ones the scanners were written for, so a changed
pattern fails the proof build (fail closed)."""
import re
import sys

from gen_tables import emit, zlist, zstr

NAMES = [
    ("pat_find_word", "_FIND_WORD_RE"),
    ("pat_find_current_word", "_FIND_CURRENT_WORD_RE"),
    ("pat_find_current_word_ws", "_FIND_CURRENT_WORD_INCLUDE_TRAILING_WHITESPACE_RE"),
    ("pat_find_big_word", "_FIND_BIG_WORD_RE"),
    ("pat_find_current_big_word", "_FIND_CURRENT_BIG_WORD_RE"),
    ("pat_find_current_big_word_ws", "_FIND_CURRENT_BIG_WORD_INCLUDE_TRAILING_WHITESPACE_RE"),
]


def t_C02_Patterns():
    import prompt_toolkit.document as m
    body = ""
    for coq_name, attr in NAMES:
        r = getattr(m, attr, None)
        if not isinstance(r, re.Pattern) or not isinstance(r.pattern, str):
            sys.stderr.write("gen_t_c02: %s is not a compiled str regex\n" % attr)
            sys.exit(2)
        body += "Definition %s : list Z :=\n  %s.\n" % (coq_name, zstr(r.pattern))
        body += "Definition %s_flags : Z := %d.\n\n" % (coq_name, int(r.flags))
    # the word alphabet used by find_boundaries_of_current_word
    import string
    body += "Definition word_alphabet : list Z :=\n  %s.\n" % zstr(string.ascii_letters + "0123456789_")
    # the fields of the shared line cache object and the slots of Document (a new cached field must show
    # up in the cache model: Proofs/C02_Patterns.v compares)
    dc = getattr(m, "_DocumentCache", None)
    try:
        fields = list(vars(dc()).keys())
        slots = list(m.Document.__slots__)
    except Exception as e:  # noqa
        sys.stderr.write("gen_t_c02: _DocumentCache / Document.__slots__ have an unexpected shape: %r\n" % (e,))
        sys.exit(2)
    if not all(isinstance(f, str) for f in fields + slots):
        sys.stderr.write("gen_t_c02: non-string field names\n")
        sys.exit(2)
    body += "\nDefinition document_cache_fields : list (list Z) :=\n  [%s].\n" % "; ".join(zstr(f) for f in fields)
    body += "Definition document_slots : list (list Z) :=\n  [%s].\n" % "; ".join(zstr(f) for f in slots)
    return emit("C02_Patterns", body)


# re.IGNORECASE.  The table is regenerated over EVERY cased code point of the running CPython
# (a character is cased when sre treats it as such, _sre.unicode_iscased, or str.lower/upper change
# it): 2927 characters with unicodedata 15.0, 520 of them astral.  For each of them as an escaped
# literal pattern character, the set of other characters of G = cased + FOLD_UNCASED it matches under
# re.IGNORECASE is recorded; uncased characters of G must match exactly themselves (fail closed).
# The harness generates ignore_case queries only over G (harness/c02.py: fold_ok).
FOLD_EXTRA = "\u00e9\u00c9\u00df\u1e9e\u017f\u212a\u0131\u0130\u03c3\u03c2\u03a3\u00b5\u03bc\ufb01\ufb02\u01f0\u0390\u00fc\u00dc"
# every uncased character any C02 generator uses (texts, needles, brackets, blanks of every kind)
FOLD_UNCASED = (".,_-()[]{}<>\"' \n\t\r\x0b\x0c\x1c\x1d\x1e\x1f\x85\u00a0\u1680\u2000\u2028\u2029\u202f\u205f\u3000"
                "0123456789\u754c\U0001F600!#$%&*+/:;=?@\\^`|~")


def cased_code_points():
    import _sre
    return [c for c in range(0x110000)
            if not (0xD800 <= c <= 0xDFFF)
            and (_sre.unicode_iscased(c) or chr(c).lower() != chr(c) or chr(c).upper() != chr(c))]


_FOLD = None


def fold_relation():
    """(cased code points, pairs (pattern char, text char) with pattern != text that match)"""
    global _FOLD
    if _FOLD is not None:
        return _FOLD
    cased = cased_code_points()
    cs = set(cased)
    for u in FOLD_UNCASED:
        if ord(u) in cs:
            sys.stderr.write("gen_t_c02: %r listed as uncased is cased\n" % u)
            sys.exit(2)
    g = "".join(map(chr, cased)) + FOLD_UNCASED
    pairs = []
    for y in g:
        hit = False
        for m in re.compile(re.escape(y), re.IGNORECASE).finditer(g):
            x = g[m.start()]
            if m.end() - m.start() != 1:
                sys.stderr.write("gen_t_c02: IGNORECASE match of %r is not one character\n" % y)
                sys.exit(2)
            if x == y:
                hit = True
            elif ord(y) in cs and ord(x) in cs:
                pairs.append((ord(y), ord(x)))
            else:
                sys.stderr.write("gen_t_c02: uncased %r / %r match under IGNORECASE\n" % (y, x))
                sys.exit(2)
        if not hit:
            sys.stderr.write("gen_t_c02: IGNORECASE not reflexive on %r\n" % y)
            sys.exit(2)
    _FOLD = (cased, pairs)
    return _FOLD


def t_C02_CaseFold():
    """the per-character relation of re.IGNORECASE between an escaped literal pattern character and a
    text character, over all cased code points; fail closed on its shape."""
    cased, pairs = fold_relation()
    if not (2000 <= len(pairs) <= 20000) or (97, 65) not in pairs or (65, 97) not in pairs or \
       (0x1E9E, 0xDF) not in pairs or not all(ord(c) in set(cased) for c in FOLD_EXTRA):
        sys.stderr.write("gen_t_c02: unexpected fold table size %d\n" % len(pairs))
        sys.exit(2)
    body = "(* pairs (pattern char, text char), distinct, that match under re.IGNORECASE *)\n"
    body += "Definition c02_fold_pairs : list (Z * Z) :=\n  [%s].\n\n" % "; ".join("(%d, %d)" % q for q in pairs)
    body += "Definition c02_fold_alphabet : list Z :=\n  %s.\n" % zlist(cased)
    return emit("C02_CaseFold", body)


TABLES = {"C02_Patterns": t_C02_Patterns, "C02_CaseFold": t_C02_CaseFold}
