"""C02 tables: the pattern strings (and flags) of the six word regexes of
prompt_toolkit.document.  The scanners in coq/Model/C02_DocQueries.v are
written for exactly these patterns; Proofs/C02_Patterns.v compares the
regenerated strings with the ones the scanners were written for, so a changed
pattern fails the proof build (fail closed)."""
import re
import sys

from gen_tables import emit, zlist, zstr

NAMES = [
    ("pat_find_word", "_FIND_WORD_RE"),
    ("pat_find_current_word", "_FIND_CURRENT_WORD_RE"),
    ("pat_find_current_word_ws", "_FIND_CURRENT_WORD_INCLUDE_TRAILING_WHITESPACE_RE"),
    ("pat_find_big_word", "_FIND_BIG_WORD_RE"),
    ("pat_find_current_big_word", "_FIND_CURRENT_BIG_WORD_RE"),
    ("pat_find_current_big_word_ws", "_FIND_CURRENT_BIG_WORD_INCLUDE_TRAILING_WHITESPACE_RE"),
]


def t_C02_Patterns():
    import prompt_toolkit.document as m
    body = ""
    for coq_name, attr in NAMES:
        r = getattr(m, attr, None)
        if not isinstance(r, re.Pattern) or not isinstance(r.pattern, str):
            sys.stderr.write("gen_t_c02: %s is not a compiled str regex\n" % attr)
            sys.exit(2)
        body += "Definition %s : list Z :=\n  %s.\n" % (coq_name, zstr(r.pattern))
        body += "Definition %s_flags : Z := %d.\n\n" % (coq_name, int(r.flags))
    # the word alphabet used by find_boundaries_of_current_word
    import string
    body += "Definition word_alphabet : list Z :=\n  %s.\n" % zstr(string.ascii_letters + "0123456789_")
    return emit("C02_Patterns", body)


# Cased characters the C02 harness uses in ignore_case queries: all ASCII letters, letters whose
# str.casefold() changes length (sharp s, dotted capital I, fi ligature, j-caron, iota with dialytika
# and tonos) and other non-ASCII letters with regular or irregular simple folding.
FOLD_EXTRA = "\u00e9\u00c9\u00df\u1e9e\u017f\u212a\u0131\u0130\u03c3\u03c2\u03a3\u00b5\u03bc\ufb01\ufb02\u01f0\u0390\u00fc\u00dc"
FOLD_UNCASED = ".,_-()[] \n\t0\u754c\U0001F600"


def fold_alphabet():
    return [chr(c) for c in range(65, 91)] + [chr(c) for c in range(97, 123)] + list(FOLD_EXTRA)


def t_C02_CaseFold():
    """the per-character relation of re.IGNORECASE between an escaped literal pattern character and a
    text character, over fold_alphabet(); fail closed on its shape."""
    al = fold_alphabet()
    pairs = []
    for p_ in al:
        for t_ in al:
            m = re.fullmatch(re.escape(p_), t_, re.IGNORECASE) is not None
            if p_ == t_ and not m:
                sys.stderr.write("gen_t_c02: IGNORECASE not reflexive on %r\n" % p_)
                sys.exit(2)
            if p_ != t_ and m:
                pairs.append((ord(p_), ord(t_)))
    for u in FOLD_UNCASED:
        for t_ in al + list(FOLD_UNCASED):
            if (re.fullmatch(re.escape(u), t_, re.IGNORECASE) is not None) != (u == t_) or \
               (re.fullmatch(re.escape(t_), u, re.IGNORECASE) is not None) != (u == t_):
                sys.stderr.write("gen_t_c02: uncased %r and %r match under IGNORECASE\n" % (u, t_))
                sys.exit(2)
    if not (52 <= len(pairs) <= 300) or (97, 65) not in pairs or (65, 97) not in pairs:
        sys.stderr.write("gen_t_c02: unexpected fold table size %d\n" % len(pairs))
        sys.exit(2)
    body = "(* pairs (pattern char, text char), distinct, that match under re.IGNORECASE *)\n"
    body += "Definition c02_fold_pairs : list (Z * Z) :=\n  [%s].\n\n" % "; ".join("(%d, %d)" % q for q in pairs)
    body += "Definition c02_fold_alphabet : list Z :=\n  %s.\n" % zlist(ord(c) for c in al)
    return emit("C02_CaseFold", body)


TABLES = {"C02_Patterns": t_C02_Patterns, "C02_CaseFold": t_C02_CaseFold}
