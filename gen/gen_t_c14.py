"""C14 table: what the history-related key handlers of /repo do, translated from
their SOURCE (AST) by harness/c14_handlers.py -> coq/Gen/C14_Handlers.v, plus the
constants of KeyPressEvent.arg.  Fail closed: any statement or expression the
translator does not know aborts with exit 2."""
import os
import sys

sys.path.insert(0, os.path.join(os.path.dirname(os.path.dirname(os.path.abspath(__file__))), "harness"))
from gen_tables import emit  # noqa


def _cnt(c):
    if c[0] == "arg":
        return "(CArg (%d))" % c[1]
    if c[0] == "const":
        return "(CConst (%d))" % c[1]
    if c[0] == "last":
        return "CLast"
    sys.exit(2)


def _call(k):
    b = lambda x: "true" if x else "false"
    if k[0] == "back":
        return "HBack %s" % _cnt(k[1])
    if k[0] == "fwd":
        return "HFwd %s" % _cnt(k[1])
    if k[0] == "goto":
        return "HGoto %s" % _cnt(k[1])
    if k[0] == "up":
        return "HAutoUp %s %s" % (_cnt(k[1]), b(k[2]))
    if k[0] == "down":
        return "HAutoDown %s %s" % (_cnt(k[1]), b(k[2]))
    sys.exit(2)


def t_C14_Handlers():
    import c14_handlers as H
    try:
        g = H.translate_event_arg()
        rows = []
        notes = []
        for h in sorted(H.SPECS):
            calls = H.translate(h)
            need = H.needs_arg(h)
            if not calls:
                raise H.Unknown("handler %d has an empty body" % h)
            rows.append("  mkhrow %d %s [%s]" % (h, "true" if need else "false", "; ".join(_call(k) for k in calls)))
            notes.append("   %d = %s %s" % (h, H.SPECS[h][0], H.SPECS[h][1]))
    except H.Unknown as e:
        sys.stderr.write("gen_t_c14: %s\n" % e)
        sys.exit(2)
    body = "From PTK Require Import Lib.C14_Handlers.\n\n"
    body += "(* KeyPressEvent.arg: \"-\" -> arg_minus; no argument -> arg_default; more than arg_digits significant digits -> arg_long_neg / arg_long_pos by sign; value >= arg_limit -> arg_over *)\n"
    body += "".join("Definition %s : Z := %d.\n" % (nm, g[k]) for nm, k in (
        ("arg_minus", "M"), ("arg_default", "D"), ("arg_digits", "N"), ("arg_long_neg", "NEGR"), ("arg_long_pos", "POSR"),
        ("arg_limit", "L"), ("arg_over", "O"))) + "\n"
    body += "(* handlers:\n" + "\n".join(notes) + "\n*)\n"
    body += "Definition handlers : list hrow := [\n" + ";\n".join(rows) + "\n].\n"
    return emit("C14_Handlers", body)


TABLES = {"C14_Handlers": t_C14_Handlers}
