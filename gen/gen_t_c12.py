"""C12 table: the 'no maximum given' sentinel of Dimension, read from /repo."""
import sys
from gen_tables import emit


def t_C12_Huge():
    from prompt_toolkit.layout.dimension import Dimension
    d = Dimension()
    if not (isinstance(d.max, int) and d.max > 10 ** 6 and d.min == 0 and d.preferred == 0 and d.weight == 1):
        sys.stderr.write("gen_t_c12: unexpected Dimension() defaults %r\n" % ((d.min, d.max, d.preferred, d.weight),))
        sys.exit(2)
    e = Dimension.exact(7)
    if (e.min, e.max, e.preferred, e.weight) != (7, 7, 7, 1):
        sys.exit(2)
    body = "Definition repo_huge : Z := %d.\n" % d.max
    body += "Definition repo_default_dim : list Z := [%d; %d; %d; %d].\n" % (d.min, d.max, d.preferred, d.weight)
    return emit("C12_Huge", body)


def t_C12_FloatProbes():
    """CPython's evaluation of the test in take_using_weights, `taken < i*weight / float(max_weight)`, on a
    fixed list of adversarial triples (quotient next to an integer, operands next to powers of two, below and
    beyond 2**53).  Coq re-evaluates every triple with its primitive binary64 operations (Proofs/C12_PrimFloat.v)."""
    import inspect
    import random
    from prompt_toolkit import utils
    src = inspect.getsource(utils.take_using_weights)
    if "already_taken[item_i] < i * weight / float(max_weight)" not in src:
        sys.stderr.write("gen_t_c12: the comparison in take_using_weights changed\n")
        sys.exit(2)
    rng = random.Random(20261001)
    rows = []

    def add(taken, iw, mw):
        if 0 <= taken < 2 ** 53 and 0 <= iw < 2 ** 62 and 0 < mw < 2 ** 62:
            i, weight, max_weight = iw, 1, mw
            rows.append((taken, iw, mw, 1 if taken < i * weight / float(max_weight) else 0))
    for _ in range(1500):
        mw = rng.choice([rng.randint(1, 2 ** 53 - 1), rng.randint(1, 2 ** 27), 2 ** rng.randint(0, 52) + rng.randint(0, 3)])
        iw = rng.choice([rng.randint(0, 2 ** 53 - 1), min(2 ** 53 - 1, mw * rng.randint(0, 2 ** 26) + rng.randint(0, 2))])
        q = iw // mw
        for t in (q - 1, q, q + 1):
            add(t, iw, mw)
    for _ in range(700):
        mw = rng.choice([rng.randint(1, 2 ** 61), rng.randint(1, 2 ** 20), 2 ** rng.randint(0, 60) + rng.randint(0, 3)])
        iw = rng.choice([rng.randint(2 ** 53, 2 ** 62 - 1), 2 ** rng.randint(53, 61) + rng.randint(0, 5),
                         min(2 ** 62 - 1, max(2 ** 53, mw * rng.randint(1, 2 ** 40) + rng.randint(0, 2)))])
        q = iw // mw
        for t in (q - 1, q, q + 1):
            add(t, iw, mw)
    if len(rows) < 5000:
        sys.exit(2)
    body = "Definition float_probes : list (Z * Z * Z * Z) := [\n" + ";\n".join("(%d, %d, %d, %d)" % r for r in rows) + "].\n"
    return emit("C12_FloatProbes", body)


TABLES = {"C12_Huge": t_C12_Huge, "C12_FloatProbes": t_C12_FloatProbes}
