"""C12 table: the 'no maximum given' sentinel of Dimension, read from /repo."""
import sys
from gen_tables import emit


def t_C12_Huge():
    from prompt_toolkit.layout.dimension import Dimension
    d = Dimension()
    if not (isinstance(d.max, int) and d.max > 10 ** 6 and d.min == 0 and d.preferred == 0 and d.weight == 1):
        sys.stderr.write("gen_t_c12: unexpected Dimension() defaults %r\n" % ((d.min, d.max, d.preferred, d.weight),))
        sys.exit(2)
    e = Dimension.exact(7)
    if (e.min, e.max, e.preferred, e.weight) != (7, 7, 7, 1):
        sys.exit(2)
    body = "Definition repo_huge : Z := %d.\n" % d.max
    body += "Definition repo_default_dim : list Z := [%d; %d; %d; %d].\n" % (d.min, d.max, d.preferred, d.weight)
    return emit("C12_Huge", body)


TABLES = {"C12_Huge": t_C12_Huge}
