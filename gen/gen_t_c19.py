"""C19 tables, regenerated from the working tree of the repo under test into
coq/Gen/C19_Palette.v: the SGR code tables and palettes of output/vt100.py,
the inverse tables of formatted_text/ansi.py, the colour-name tables of
styles/, and the pattern string of style.CLASS_NAMES_RE.  Fail-closed."""
import sys

from gen_tables import emit, zlist, zstr


def _die(msg):
    sys.stderr.write("gen_t_c19: unexpected shape: %s\n" % msg)
    sys.exit(2)


def _is_int(x):
    return isinstance(x, int) and not isinstance(x, bool)


def _rgb(t):
    if not (isinstance(t, tuple) and len(t) == 3 and all(_is_int(v) for v in t)):
        _die("rgb triple %r" % (t,))
    return "(%d, %d, %d)" % t


def _lst(items):
    return "[" + ";\n   ".join(items) + "]"


def t_C19_Palette():
    from prompt_toolkit.formatted_text import ansi
    from prompt_toolkit.output import vt100
    from prompt_toolkit.styles import base, style, style_transformation

    names = base.ANSI_COLOR_NAMES
    aliases = base.ANSI_COLOR_NAMES_ALIASES
    fg, bg, to_rgb = vt100.FG_ANSI_COLORS, vt100.BG_ANSI_COLORS, vt100.ANSI_COLORS_TO_RGB
    c256 = vt100._256_colors.colors
    named = style._named_colors_lowercase
    pat = style.CLASS_NAMES_RE.pattern

    if not (isinstance(names, list) and 8 <= len(names) <= 64 and all(isinstance(n, str) and n for n in names)):
        _die("ANSI_COLOR_NAMES")
    if not (isinstance(aliases, dict) and all(isinstance(k, str) and isinstance(v, str) for k, v in aliases.items())):
        _die("ANSI_COLOR_NAMES_ALIASES")
    for nm, d in (("FG_ANSI_COLORS", fg), ("BG_ANSI_COLORS", bg)):
        if not (isinstance(d, dict) and d and all(isinstance(k, str) and _is_int(v) for k, v in d.items())):
            _die(nm)
    if not (isinstance(to_rgb, dict) and to_rgb and all(isinstance(k, str) for k in to_rgb)):
        _die("ANSI_COLORS_TO_RGB")
    if not (isinstance(c256, list) and 17 <= len(c256) <= 4096):
        _die("_256_colors.colors")
    if not (isinstance(named, dict) and all(isinstance(k, str) and isinstance(v, str) for k, v in named.items())):
        _die("_named_colors_lowercase")
    for nm, d in (("ansi._fg_colors", ansi._fg_colors), ("ansi._bg_colors", ansi._bg_colors), ("ansi._256_colors", ansi._256_colors)):
        if not (isinstance(d, dict) and d and all(_is_int(k) and isinstance(v, str) for k, v in d.items())):
            _die(nm)
    if not isinstance(pat, str):
        _die("CLASS_NAMES_RE.pattern")
    if style.DEFAULT_ATTRS != ("", "", False, False, False, False, False, False, False):
        _die("DEFAULT_ATTRS")
    if tuple(style._EMPTY_ATTRS) != (None,) * 9:
        _die("_EMPTY_ATTRS")
    if base.Attrs._fields != ("color", "bgcolor", "bold", "underline", "strike", "italic", "blink", "reverse", "hidden"):
        _die("Attrs._fields")

    def sz(d):
        return _lst("(%s, %d)" % (zstr(k), v) for k, v in d.items())

    def zs(d):
        return _lst("(%d, %s)" % (k, zstr(v)) for k, v in d.items())

    body = ""
    body += "Definition ansi_color_names : list (list Z) :=\n  %s.\n\n" % _lst(zstr(n) for n in names)
    body += "Definition ansi_color_aliases : list (list Z * list Z) :=\n  %s.\n\n" % _lst(
        "(%s, %s)" % (zstr(k), zstr(v)) for k, v in aliases.items())
    body += "Definition fg_ansi_colors : list (list Z * Z) :=\n  %s.\n\n" % sz(fg)
    body += "Definition bg_ansi_colors : list (list Z * Z) :=\n  %s.\n\n" % sz(bg)
    body += "(* dict order: the order _get_closest_ansi_color scans *)\n"
    body += "Definition ansi_colors_to_rgb : list (list Z * (Z * Z * Z)) :=\n  %s.\n\n" % _lst(
        "(%s, %s)" % (zstr(k), _rgb(v)) for k, v in to_rgb.items())
    body += "(* _256ColorCache().colors *)\n"
    body += "Definition colors_256 : list (Z * Z * Z) :=\n  %s.\n\n" % _lst(_rgb(c) for c in c256)
    body += "(* formatted_text/ansi.py *)\n"
    body += "Definition ansi_fg_inv : list (Z * list Z) :=\n  %s.\n\n" % zs(ansi._fg_colors)
    body += "Definition ansi_bg_inv : list (Z * list Z) :=\n  %s.\n\n" % zs(ansi._bg_colors)
    body += "Definition ansi_256_hex : list (Z * list Z) :=\n  %s.\n\n" % zs(ansi._256_colors)
    body += "(* styles/style.py _named_colors_lowercase *)\n"
    body += "Definition named_colors_lower : list (list Z * list Z) :=\n  %s.\n\n" % _lst(
        "(%s, %s)" % (zstr(k), zstr(v)) for k, v in named.items())
    opp = style_transformation.OPPOSITE_ANSI_COLOR_NAMES
    if not (isinstance(opp, dict) and opp and all(isinstance(k, str) and isinstance(v, str) for k, v in opp.items())):
        _die("OPPOSITE_ANSI_COLOR_NAMES")
    body += "(* styles/style_transformation.py *)\n"
    body += "Definition opposite_ansi_names : list (list Z * list Z) :=\n  %s.\n\n" % _lst(
        "(%s, %s)" % (zstr(k), zstr(v)) for k, v in opp.items())
    body += "Definition class_names_re_pattern : list Z :=\n  %s.\n" % zstr(pat)
    return emit("C19_Palette", body)


TABLES = {"C19_Palette": t_C19_Palette}
