"""C05 table: the effective key-binding registry of a PromptSession (the
flattened list KeyProcessor matches against) -> coq/Gen/C05_Bindings.v.
Keys, filter/eager expression trees over Condition atoms, handler ids.
Fail-closed: unknown filter nodes, missing Escape handlers or missing mode
atoms abort with exit 2."""
import os
import sys

sys.path.insert(0, os.path.join(os.path.dirname(os.path.dirname(os.path.abspath(__file__))), "harness"))
from gen_tables import emit  # noqa


def _ft(t):
    k = t[0]
    if k == "true":
        return "FTrue"
    if k == "false":
        return "FFalse"
    if k == "atom":
        return "FAtom %d" % t[1]
    if k == "not":
        return "FNot (%s)" % _ft(t[1])
    if k in ("and", "or"):
        return "%s [%s]" % ("FAnd" if k == "and" else "FOr", "; ".join(_ft(x) for x in t[1:]))
    sys.exit(2)


def t_C05_Bindings():
    import c05_table
    d = c05_table.dump_table("default")
    s = c05_table.dump_table("search")
    if [(b["keys"], b["filter"], b["eager"], b["handler"]) for b in d["bindings"]] != \
       [(b["keys"], b["filter"], b["eager"], b["handler"]) for b in s["bindings"]]:
        sys.stderr.write("gen_t_c05: registry differs between default and search focus\n")
        sys.exit(2)
    bs, atoms = d["bindings"], d["atoms"]
    if not (100 < len(bs) < 5000 and 5 < len(atoms) < 200):
        sys.exit(2)
    handlers = []
    for b in bs:
        if b["handler"] not in handlers:
            handlers.append(b["handler"])

    def uniq_atom(name):
        ix = [i for i, a in enumerate(atoms) if a == name]
        if len(ix) != 1:
            sys.stderr.write("gen_t_c05: atom %s found %d times\n" % (name, len(ix)))
            sys.exit(2)
        return ix[0]

    def uniq_handler(suffix):
        ix = [i for i, h in enumerate(handlers) if h.endswith(suffix)]
        if len(ix) != 1:
            sys.stderr.write("gen_t_c05: handler %s found %d times\n" % (suffix, len(ix)))
            sys.exit(2)
        return ix[0]
    body = "From PTK Require Import Lib.C05_Filter.\n\n"
    body += "Definition K_Any : Z := %d.\nDefinition K_Escape : Z := %d.\n" % (
        c05_table.key_code("<<any>>"), c05_table.key_code("<escape>"))
    for nm, full in (("vi_mode", "filters.app.vi_mode"), ("emacs_mode", "filters.app.emacs_mode"),
                     ("buffer_has_focus", "filters.app.buffer_has_focus"),
                     ("in_quoted_insert", "key_binding.bindings.basic.in_quoted_insert"),
                     ("is_searching", "filters.app.is_searching"),
                     ("vi_navigation_mode", "filters.app.vi_navigation_mode"),
                     ("vi_selection_mode", "filters.app.vi_selection_mode"),
                     ("vi_waiting_for_text_object_mode", "filters.app.vi_waiting_for_text_object_mode")):
        body += "Definition a_%s : Z := %d.\n" % (nm, uniq_atom(full))
    body += "Definition h_back_to_navigation : Z := %d.\n" % uniq_handler("load_vi_bindings.<locals>._back_to_navigation")
    body += "Definition h_accept_search : Z := %d.\n" % uniq_handler("bindings.search.accept_search")
    body += "Definition n_atoms : Z := %d.\nDefinition n_handlers : Z := %d.\n\n" % (len(atoms), len(handlers))
    body += "(* atoms:\n" + "\n".join("   %d %s" % (i, a) for i, a in enumerate(atoms)) + "\n*)\n"
    body += "(* handlers:\n" + "\n".join("   %d %s" % (i, h.replace("*)", "* )")) for i, h in enumerate(handlers)) + "\n*)\n\n"
    rows = []
    for b in bs:
        rows.append("  mkB [%s] (%s) (%s) %d" % ("; ".join(str(c05_table.key_code(k)) for k in b["keys"]),
                                               _ft(b["filter"]), _ft(b["eager"]), handlers.index(b["handler"])))
    body += "Definition bindings : list binding := [\n" + ";\n".join(rows) + "\n].\n"
    return emit("C05_Bindings", body)


TABLES = {"C05_Bindings": t_C05_Bindings}
